"""C08 -- results covariant under relabelling of field space (translation, reflection, permutation)."""
from __future__ import annotations

import math

import numpy as np

import common as C
import eom_common as EC

LEAN_MODULE = "WallGoVerif.Props.C08"
LEMMA_MODULES = ["WallGoVerif.Lemmas.EOM", "WallGoVerif.Model.EOM"]
GEN_MODULES = []
RULE = ("obligations = Lean theorems of Props.C08 about Model.EOM (tanh profile and gradient equivariant under translation/"
        "reflection/permutation; kinetic term, LHS and grid envelope invariant; re-pinning law for the offsets; _toWallParams pins the "
        "first offset) + metamorphic end-to-end runs of the real EOM/hydrodynamics on a coupled two-field model under every relabelling "
        "class + action-covariance check on equivalent configurations; distinct = (transformation, quantity)")
ASSUMPTIONS = ["iterative solvers (Nelder-Mead, pressure iteration, brentq) are oracles: dimensionless outputs compared at 2*errTol",
               "Model.EOM is tied to the code by the C04 correspondence (same driver)"]
KEY_PERM = "C08:permutation-changes-solution"


def transforms(tier, r):
    ts = [("reflect0", dict(signs=(-1.0, 1.0))), ("shift", dict(shift=(0.7, -1.3))), ("permute", dict(perm=(1, 0))),
          # translation after which the OTHER field has the larger |vev| in the low-temperature phase
          ("shift-other-dominant", dict(shift=(-1.0, 4.0)))]
    if tier == "thorough":
        ts += [("reflect1", dict(signs=(1.0, -1.0))), ("reflect01+shift", dict(signs=(-1.0, -1.0), shift=(-2.0, 0.4))),
               ("permute+reflect+shift", dict(perm=(1, 0), signs=(-1.0, 1.0), shift=(r.uniform(-2, 2), r.uniform(-2, 2))))]
    return ts


def corr(rep: C.Report, tier: str):
    """action / profile covariance on equivalent configurations of the REAL EOM (fixed T profile)."""
    from WallGo.containers import WallParams
    from WallGo.polynomial import Polynomial
    r = C.rng("C08corr")
    base = EC.make_eom("toy2c", {}, M=40)
    Tn = base["thermo"].Tnucl
    vw = 0.6
    vals = {}
    bad = []
    for name, params in [("identity", {})] + transforms(tier, r):
        o = EC.make_eom("toy2c", params, M=40)
        eom, h, grid, model = o["eom"], o["hydro"], o["grid"], o["model"]
        c1, c2, Tp, Tm, vmid = h.findHydroBoundaries(vw)
        lowv, highv = EC.vevs(o, Tp, Tm)
        for k in range(3):
            rr = C.rng(f"C08shape{k}")
            Lphi, Ls, ds = rr.uniform(4, 8) / Tn, rr.uniform(4, 8) / Tn, rr.uniform(-1.5, 1.5)
            # internal (phi, s) wall: phi centred at 0, s offset ds  ->  user ordering, first user field pinned
            Wint, offint = [Lphi, Ls], [0.0, ds]
            order = list(model.perm)           # user field perm[0] is phi, perm[1] is s
            W = [0.0, 0.0]
            off = [0.0, 0.0]
            W[order[0]], W[order[1]] = Wint
            off[order[0]], off[order[1]] = offint
            # re-pin: shift z so that user field 0 has offset 0
            k0 = 0
            a_over = off[k0] * W[k0]
            off = [off[i] - a_over / W[i] for i in range(2)]
            wp = WallParams(widths=np.array(W), offsets=np.array(off))
            eom._updateGrid(wp, vmid)
            zero = Polynomial(np.zeros((0, grid.M - 1)), grid, direction=("Array", "z"), basis=("Array", "Cardinal"))
            act = eom.action(wp, lowv, highv, np.full(grid.M - 1, 0.5 * (Tp + Tm)), zero)
            rep.case(key=("action", name, k))
            if name == "identity":
                vals[k] = act
            elif abs(act - vals[k]) > 1e-7 * abs(vals[k]):
                bad.append((name, k, act, vals[k]))
    rep.obligation("real EOM.action is invariant on equivalent wall configurations under every relabelling (re-pinned offsets)",
                   "correspondence", not bad, str(bad[:2]))
    if bad:
        rep.violation("the wall action differs between equivalent configurations of relabelled field spaces",
                      {"cases": [(n, k, float(a), float(b)) for n, k, a, b in bad[:4]]}, finding_key="C08:action")


def _xsm_relabellings(rep: C.Report, tier: str):
    """two-field GeV-like model at Tn = 300 (in its units) through WallGoManager, in equivalent labellings of field space"""
    import manager_common as MC

    def run(int_guess=False, **relabel):
        m, model = MC.new_xsm_manager(u=3.0, int_guess=int_guess, **relabel)
        res = m.solveWall(MC.settings())
        Tn = 300.0
        # phase locations at Tn, mapped back to the reference frame
        run.phases = [model.from_user(np.asarray(m.thermodynamics.freeEnergyHigh(Tn).fieldsAtMinimum).ravel()),
                      model.from_user(np.asarray(m.thermodynamics.freeEnergyLow(Tn).fieldsAtMinimum).ravel())]
        W, off = np.asarray(res.wallWidths), np.asarray(res.wallOffsets)
        ih, is_ = relabel.get("perm", (0, 1)).index(0), relabel.get("perm", (0, 1)).index(1)
        # physical separation of the two walls: centre_i = -offset_i * L_i
        sep = (-off[is_] * W[is_]) - (-off[ih] * W[ih])
        return {"vw": res.wallVelocity, "success": res.success, "vJ": float(m.hydrodynamics.vJ), "widthH*Tn": float(W[ih] * Tn),
                "widthS*Tn": float(W[is_] * Tn), "separation*Tn": float(sep * Tn)}
    base = run()
    base_phases = run.phases
    # approximate phase locations typed as integers (whole numbers in the natural frame, e.g. Fields([0, 315])); in a frame translated by a
    # non-integer vector the same guesses are floats: the located phases must be the same points of field space
    for nm_, kw_ in (("integer-typed guesses", dict(int_guess=True)), ("integer-typed guesses, integer translation", dict(int_guess=True, shift=(-400.0, -250.0)))):
        got = run(**kw_)
        ph = run.phases
        rep.case(key=("xsm-int-guess", nm_))
        rep.count("xsm runs with integer-typed phase guesses")
        dev = max(abs(a - b) for P_, Q_ in zip(ph, base_phases) for a, b in zip(P_, Q_))
        if not dev <= 0.001 or got['vw'] is None or (not abs(got['vw'] - base['vw']) <= 0.002):
            rep.violation(f"two-field GeV-like model (Tn=300): {nm_} give different phase locations / wall velocity than the same guesses typed as floats",
                          {"variant": nm_, "phases_at_Tn(reference frame)": ph, "with_float_guesses": base_phases, "max_deviation": dev,
                           "vw": got["vw"], "vw_float_guesses": base["vw"]}, finding_key="C08:xsm:integer-guess")
    # "highT-phase-at-origin": the frame in which the metastable phase (0, s_h(Tn)) sits at the origin AT Tn (a common convention); its singlet
    # component is then zero at Tn but not at other temperatures
    sh_Tn = math.sqrt(-((120.0 ** 2 - 0.5 * 0.9 * 246.0 ** 2) + (0.9 / 6 + 1.0 / 4) * 100.0 ** 2) / 1.0)      # in units of u (Tn = 100 u)
    labs = [("permute", dict(perm=(1, 0))), ("reflect-h+shift", dict(signs=(-1.0, 1.0), shift=(40.0, -25.0))),
            ("highT-phase-at-origin", dict(shift=(0.0, -sh_Tn)))]
    if tier == "thorough":
        labs += [("permute+reflect-s", dict(perm=(1, 0), signs=(1.0, -1.0))), ("shift", dict(shift=(-120.0, 300.0)))]
    for name, relabel in labs:
        got = run(**relabel)
        rep.case(key=("xsm-relabel", name))
        rep.count("xsm relabelling runs")
        bad = []
        if abs(got["vJ"] - base["vJ"]) > 1e-6:
            bad.append("vJ")
        if got["success"] != base["success"] or got["vw"] is None or abs(got["vw"] - base["vw"]) > 2e-3:
            bad.append("vw")
        for q in ("widthH*Tn", "widthS*Tn"):
            if abs(got[q] - base[q]) > 0.03 * base[q]:
                bad.append(q)
        if abs(got["separation*Tn"] - base["separation*Tn"]) > 0.1 * abs(base["separation*Tn"]) + 0.05:
            bad.append("separation*Tn")
        if bad:
            rep.violation(f"two-field GeV-like model (Tn=300): relabelling field space ({name}) changes {bad}",
                          {"transformation": name, "params": {k: list(v) for k, v in relabel.items()}, "base": base, "transformed": got,
                           "how": "harness/manager_common.new_xsm_manager(u=3.0, **relabel)[0].solveWall(settings())"},
                          finding_key=f"C08:xsm:{name}:{','.join(bad)}")


def search(rep: C.Report, tier: str, broken):
    _xsm_relabellings(rep, tier)
    r = C.rng("C08search")
    base = EC.make_eom("toy2c", {}, M=40)
    Tn = base["thermo"].Tnucl
    rb = base["eom"].findWallVelocityDeflagrationHybrid()
    hb = base["hydro"]
    ref = dict(vw=rb.wallVelocity, vLTE=rb.wallVelocityLTE, vJ=hb.vJ, Tp=rb.temperaturePlus, Tm=rb.temperatureMinus,
               widths=sorted((rb.wallWidths * Tn).tolist()))
    tol = 2 * base["eom"].errTol
    for name, params in transforms(tier, r):
        o = EC.make_eom("toy2c", params, M=40)
        res = o["eom"].findWallVelocityDeflagrationHybrid()
        model = o["model"]
        got = dict(vw=res.wallVelocity, vLTE=res.wallVelocityLTE, vJ=o["hydro"].vJ, Tp=res.temperaturePlus, Tm=res.temperatureMinus,
                   widths=sorted((res.wallWidths * Tn).tolist()))
        info = {"model": "toy2c (two-step, portal coupling)", "transformation": name, "params": {k: list(v) for k, v in params.items()},
                "base": ref, "transformed": got, "base_offsets": rb.wallOffsets.tolist(), "transformed_offsets": res.wallOffsets.tolist(),
                "how": "eom_common.make_eom('toy2c', params, M=40)['eom'].findWallVelocityDeflagrationHybrid()"}
        rep.case(key=("e2e", name), sample=info if len(rep.samples) < 3 else None)
        rep.count(f"end-to-end {name}")
        bad = []
        for q in ("vLTE", "vJ"):
            if abs(got[q] - ref[q]) > 1e-5:
                bad.append(q)
        for q in ("vw",):
            if got[q] is None or ref[q] is None or abs(got[q] - ref[q]) > tol:
                bad.append(q)
        for q in ("Tp", "Tm"):
            if abs(got[q] - ref[q]) > 2e-3 * ref[q]:
                bad.append(q)
        if max(abs(a - b) for a, b in zip(got["widths"], ref["widths"])) > 0.05 * max(ref["widths"]):
            bad.append("widths")
        # phase locations move in the obvious way
        lowv, highv = EC.vevs(o, ref["Tp"], ref["Tm"])
        lb, hb_ = EC.vevs(base, ref["Tp"], ref["Tm"])
        want_low = model.user(float(np.asarray(lb)[0, 0]), float(np.asarray(lb)[0, 1]))
        if np.max(np.abs(np.asarray(lowv)[0] - np.array(want_low))) > 1e-4 * (1 + np.max(np.abs(want_low))):
            bad.append("phase location")
        if bad:
            only_solver = set(bad) <= {"vw", "Tp", "Tm", "widths"}
            rep.violation(f"relabelling field space ({name}) changes {bad}", dict(info, differing=bad),
                          finding_key=KEY_PERM if (name.startswith("permute") and only_solver) else f"C08:{name}:{','.join(bad)}")
