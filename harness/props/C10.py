"""C10 -- equation of state thermodynamically consistent and smoothly extrapolated."""
from __future__ import annotations

import math

import numpy as np

import common as C

LEAN_MODULE = "WallGoVerif.Props.C10"
LEMMA_MODULES = ["WallGoVerif.Lemmas.Thermo"]
GEN_MODULES = ["Thermo"]
VALIDATION_POINTS = (150, 3000)
RULE = ("obligations = Lean theorems of Props.C10 about the regenerated Gen.R.Thermo + axiom audit + Float "
        "validation of every generated Thermo function against the repository fragment on a mock object; "
        "evaluations = validation points + property evaluations on real Thermodynamics objects built from "
        "closed-form potentials; a case is non-trivial/distinct by (model parameters, region below/inside/above, "
        "phase, rounded temperature)")
ASSUMPTIONS = [
    "scipy CubicSpline and its .derivative are oracles: contract HasDerivAt F dF, dF ddF on the tabulated range "
    "(monitored: spline derivative vs finite differences of the spline values)",
    "theorems hold for T > 0 and for records with TMin <= TMax, nonzero dp and dp+de at the range boundaries "
    "(positive enthalpy and sound speed); checked on every real object used",
]
TRUSTED = ["hand-written closed-form toy potentials (harness/models.py) as the source of 'exact' phases"]


def _models(tier):
    out = [dict(), dict(E=0.07, lam=0.12), dict(D=0.15, E=0.08, lam=0.11, a=5.0), dict(u=3000.0)]
    if tier == "thorough":
        out += [dict(E=0.05, lam=0.09, a=1.0), dict(D=0.2, E=0.1, lam=0.13, T0=1.0, a=10.0), dict(u=37.0), dict(u=0.013, E=0.07)]
    return out


def search(rep: C.Report, tier: str, broken):
    """The property itself on the real Thermodynamics class."""
    import models
    r = C.rng("C10")
    nT = 60 if tier == "quick" else 400
    for mi, params in enumerate(_models(tier)):
        for TnFrac in ((0.6,) if tier == "quick" else (0.3, 0.6, 0.85)):
            # every other model: only an APPROXIMATE broken-phase location is handed to Thermodynamics (resolved internally)
            gerr = (0.0, 0.2, -0.12)[mi % 3]
            th, model, info = models.make_thermo("toy1", params, TnFrac=TnFrac, guess_err=gerr)
            ref = info["ref"]
            for ph in ("HighT", "LowT"):
                p, dp, ddp = getattr(th, "p" + ph), getattr(th, "dp" + ph), getattr(th, "ddp" + ph)
                e, de, w, csq = getattr(th, "e" + ph), getattr(th, "de" + ph), getattr(th, "w" + ph), getattr(th, "csq" + ph)
                TMin, TMax = getattr(th, "TMin" + ph), getattr(th, "TMax" + ph)
                exact = (lambda T: -ref.VSym(T)) if ph == "HighT" else (lambda T: -ref.VBroken(T))
                # side conditions of the theorems
                for Tb in (TMin, TMax):
                    ok = dp(Tb) != 0 and dp(Tb) + de(Tb) != 0 and TMin > 0 and TMin < TMax
                    rep.obligation(f"side conditions {ph} boundary", "monitor", ok, f"T={Tb}") if not ok else None
                Ts = [r.uniform(0.1 * TMin, 10 * TMax) for _ in range(nT // 3)]
                Ts += [r.uniform(0.8 * TMin, 1.2 * TMax) for _ in range(nT // 3)]
                Ts += [r.uniform(TMin, TMax) for _ in range(nT // 3)]
                Ts += [TMin, TMax, TMin * (1 - 1e-9), TMin * (1 + 1e-9), TMax * (1 - 1e-9), TMax * (1 + 1e-9)]
                # the nucleation temperature is where the tracing starts: the table node there and its neighbourhood
                Tn_, dT_ = th.Tnucl, info["dT"]
                Ts += [Tn_, Tn_ + 0.3 * dT_, Tn_ - 0.3 * dT_, Tn_ + 1.7 * dT_, Tn_ - 1.7 * dT_, Tn_ + 6 * dT_, Tn_ - 6 * dT_]
                # ... and at absolute distances (an integrator that starts with an absolute step puts its first nodes there)
                Ts += [Tn_ + s_ * d_ for s_ in (1, -1) for d_ in (1e-7, 1e-4, 1.1e-3)]
                for T in Ts:
                    region = "below" if T < TMin else ("above" if T > TMax else "inside")
                    rep.case(key=(tuple(sorted(params.items())), TnFrac, ph, region, round(T, 3)))
                    rep.count(f"eos {ph} {region}")
                    P, DP, DDP = float(p(T)), float(dp(T)), float(ddp(T))
                    E_, DE, W, CS = float(e(T)), float(de(T)), float(w(T)), float(csq(T))
                    bad = []
                    sc = abs(P) + abs(T * DP)
                    if abs(E_ - (T * DP - P)) > 1e-12 * sc:
                        bad.append(("e=T dp-p", E_, T * DP - P))
                    if abs(W - T * DP) > 1e-12 * sc or abs(W - (E_ + P)) > 1e-11 * sc:
                        bad.append(("w=T dp=e+p", W, T * DP, E_ + P))
                    if abs(DE - T * DDP) > 1e-12 * abs(DE):
                        bad.append(("de=T ddp", DE, T * DDP))
                    if abs(CS - DP / DE) > 1e-9 * abs(CS):
                        bad.append(("csq=dp/de", CS, DP / DE))
                    # dp, ddp are the derivatives of p, dp (central differences of the real methods)
                    h = 1e-4 * T
                    if not (min(abs(T - TMin), abs(T - TMax)) < 2 * h):
                        num = (float(p(T + h)) - float(p(T - h))) / (2 * h)
                        if abs(num - DP) > 2e-5 * abs(DP) + 1e-9 * sc / T:
                            bad.append(("dp = d/dT p", DP, num))
                        num2 = (float(dp(T + h)) - float(dp(T - h))) / (2 * h)
                        if abs(num2 - DDP) > 2e-4 * abs(DDP) + 1e-8 * sc / T / T:
                            bad.append(("ddp = d/dT dp", DDP, num2))
                    if region == "inside":
                        ex = float(exact(T))
                        if abs(P - ex) > 1e-5 * abs(ex):
                            bad.append(("p = -Veff(min)", P, ex))
                    for b in bad:
                        rep.violation(f"EOS identity {b[0]} fails in {ph} at T={T} ({region})",
                                      {"model": params, "TnFrac": TnFrac, "guess_err": gerr, "phase": ph, "T": T, "region": region,
                                       "identity": b[0], "values": b[1:], "TMin": TMin, "TMax": TMax,
                                       "how": "harness/models.make_thermo(toy1, model, TnFrac) then Thermodynamics methods"},
                                      finding_key=f"C10:{b[0]}:{region}")
                # continuity across the boundaries
                for Tb, name in ((TMin, "TMin"), (TMax, "TMax")):
                    for fn, nm, tol in ((p, "p", 1e-7), (dp, "dp", 1e-7), (ddp, "ddp", 1e-6), (csq, "csq", 1e-7)):
                        lo, hi = float(fn(Tb * (1 - 1e-10))), float(fn(Tb * (1 + 1e-10)))
                        rep.case(key=(tuple(sorted(params.items())), TnFrac, ph, "cont", name, nm))
                        if not abs(lo - hi) <= tol * max(abs(lo), abs(hi)):
                            rep.violation(f"{nm}{ph} discontinuous at {name}",
                                          {"model": params, "TnFrac": TnFrac, "phase": ph, "boundary": name, "T": Tb,
                                           "left": lo, "right": hi, "quantity": nm},
                                          finding_key=f"C10:continuity:{nm}:{name}")
                # oracle contract: spline derivative vs differences of the spline
                fe = th.freeEnergyHigh if ph == "HighT" else th.freeEnergyLow
                for T in np.linspace(TMin + 0.02 * (TMax - TMin), TMax - 0.02 * (TMax - TMin), 7):
                    h = 1e-5 * T
                    num = (fe(T + h).veffValue - fe(T - h).veffValue) / (2 * h)
                    d1 = fe.derivative(T, order=1).veffValue
                    okc = abs(num - d1) <= 1e-6 * abs(d1) + 1e-12
                    if not okc:
                        rep.obligation("oracle contract CubicSpline.derivative", "oracle-monitor", False,
                                       f"{ph} T={T} spline'={d1} diff={num}")
                rep.obligation(f"oracle contract CubicSpline.derivative {ph} {sorted(params.items())} {TnFrac}",
                               "oracle-monitor", True, "7 points")
    # ---- temperatures given as integers (Tn = 1800, thermo.dpHighT(2000), an np.int64 from a scan over np.arange) or as float32: every EOS function
    # must return what it returns for the same temperature given as a Python float
    for params in ((dict(u=3000.0),) if tier == "quick" else (dict(u=3000.0), dict(u=37.0))):
        th, model, info = models.make_thermo("toy1", params, TnFrac=0.6)
        for ph in ("HighT", "LowT"):
            TMin, TMax = getattr(th, "TMin" + ph), getattr(th, "TMax" + ph)
            fns = {nm: getattr(th, nm + ph) for nm in ("p", "dp", "ddp", "e", "de", "w", "csq")}
            ints = sorted({int(round(TMin + f_ * (TMax - TMin))) for f_ in (0.13, 0.37, 0.52, 0.71, 0.9)})
            for Ti in ints:
                if not (TMin < Ti < TMax):
                    continue
                for typ in (int, np.int64, np.int32, np.float32):
                    Tt = typ(Ti + 0.25) if typ is np.float32 else typ(Ti)
                    Tf = float(Tt)
                    rep.case(key=("temperature-type", str(sorted(params.items())), ph, typ.__name__, Ti))
                    rep.count("temperature given as " + typ.__name__)
                    for nm, fn in fns.items():
                        try:
                            a_, b_ = float(np.asarray(fn(Tt)).ravel()[0]), float(np.asarray(fn(Tf)).ravel()[0])
                            bad_ = not abs(a_ - b_) <= 1e-11 * abs(b_)
                            det = {"value": a_, "value_for_float": b_}
                        except Exception as ex:  # noqa: BLE001
                            bad_, det = True, {"error": f"{type(ex).__name__}: {str(ex)[:120]}"}
                        if bad_:
                            rep.violation(f"{nm}{ph} at a temperature given as {typ.__name__} differs from the value at the same temperature given as float",
                                          dict(det, model="toy1", params=params, phase=ph, function=nm + ph, T=Tf, type=typ.__name__),
                                          finding_key=f"C10:temperature-type:{nm}")
    # ---- the same Thermodynamics object after its phases were traced AGAIN (model parameters updated in place, as in a parameter scan that
    # re-uses the objects; derivatives had already been taken by setExtrapolate): p, dp, ddp must all belong to the NEW tables
    for dE in ((1.05,) if tier == "quick" else (1.05, 0.97, 1.10)):
        th, model, info = models.make_thermo("toy1", {}, TnFrac=0.6, key=("C10-retrace", tier, dE))
        ref = info["ref"]
        Tn_, dT_ = th.Tnucl, info["dT"]
        model.E = model.E * dE                       # closed forms (VSym, VBroken) follow the attribute
        try:
            for fe in (th.freeEnergyHigh, th.freeEnergyLow):
                fe.tracePhase(fe.minPossibleTemperature[0] - 2 * dT_, fe.maxPossibleTemperature[0] + 2 * dT_, dT_, rTol=1e-6)
            th.setExtrapolate()
        except Exception as ex:  # noqa: BLE001
            rep.count("re-trace raised " + type(ex).__name__)
            continue
        for ph in ("HighT", "LowT"):
            p, dp, ddp = getattr(th, "p" + ph), getattr(th, "dp" + ph), getattr(th, "ddp" + ph)
            TMin, TMax = getattr(th, "TMin" + ph), getattr(th, "TMax" + ph)
            exact = (lambda T: -ref.VSym(T)) if ph == "HighT" else (lambda T: -ref.VBroken(T))
            for T in np.linspace(TMin + 0.05 * (TMax - TMin), TMax - 0.05 * (TMax - TMin), 9):
                h = 1e-4 * T
                P, DP, DDP = float(p(T)), float(dp(T)), float(ddp(T))
                num = (float(p(T + h)) - float(p(T - h))) / (2 * h)
                num2 = (float(dp(T + h)) - float(dp(T - h))) / (2 * h)
                ex = float(exact(T))
                rep.case(key=("retrace", dE, ph, round(float(T), 4)))
                rep.count("re-traced object")
                bad = []
                if abs(num - DP) > 2e-5 * abs(DP):
                    bad.append(("dp = d/dT p", DP, num))
                if abs(num2 - DDP) > 2e-4 * abs(DDP):
                    bad.append(("ddp = d/dT dp", DDP, num2))
                if abs(P - ex) > 1e-5 * abs(ex):
                    bad.append(("p = -Veff(min)", P, ex))
                for b in bad:
                    rep.violation(f"after the phases were traced again on the same object, EOS identity {b[0]} fails in {ph} at T={T}",
                                  {"model": "toy1", "E_multiplied_by": dE, "phase": ph, "T": float(T), "identity": b[0], "values": b[1:],
                                   "how": "models.make_thermo(toy1); model.E *= dE; freeEnergy*.tracePhase(same range) again; setExtrapolate()"},
                                  finding_key=f"C10:retrace:{b[0]}")
    # ---- a two-field model whose second field is a spectator (zero in both phases), low-T phase requested PAST its spinodal with the default
    # re-minimisation at each step: the tabulated range must end where the phase ends, and inside it p = -Veff(min), 0 < cs^2 < 1
    # (with the looser tracing tolerance 1e-4 the minimiser rolls over the barrier on the last step before the spinodal for these parameter sets)
    specs = [(dict(E=0.07, lam=0.12), 1e-6, 0.6), (dict(D=0.15, E=0.08, lam=0.11), 1e-4, 0.6), (dict(E=0.05, lam=0.09), 1e-4, 0.5)]
    if tier == "thorough":
        specs += [({}, 1e-6, 0.6), ({}, 1e-4, 0.6), (dict(D=0.15, E=0.08, lam=0.11), 1e-4, 0.7), (dict(D=0.15, E=0.08, lam=0.11), 1e-6, 0.6)]
    for params, rTol_, tf_ in specs:
        try:
            th, model, info = models.make_thermo("toy2", params, TnFrac=tf_, tminFrac=0.8, tmaxFrac=1.5, cross=True, rTol=rTol_)
        except Exception as ex:  # noqa: BLE001
            rep.violation("Thermodynamics of a two-field model (spectator field) cannot be set up when the requested low-T range reaches past the spinodal",
                          {"model": "toy2", "params": params, "error": f"{type(ex).__name__}: {str(ex)[:200]}"}, finding_key="C10:spectator:raises")
            continue
        ref = info["ref"]
        T1 = info["T1"]
        rep.case(key=("spectator-cross", str(sorted(params.items())), rTol_, tf_))
        rep.count("spectator model, range past the spinodal")
        inf_ = {"model": "toy2 (first-order field + spectator)", "params": params, "rTol": rTol_, "TnFrac": tf_, "TMaxLowT": float(th.TMaxLowT), "spinodal_T1": float(T1),
                "flag_upper_end": bool(th.freeEnergyLow.maxPossibleTemperature[1]),
                "how": "models.make_thermo('toy2', params, TnFrac=0.6, tminFrac=0.8, tmaxFrac=1.5, cross=True)"}
        if not th.TMaxLowT <= T1 * (1 + 1e-05):
            rep.violation("the tabulated range of the low-T phase reaches beyond the temperature where the phase ceases to exist", inf_,
                          finding_key="C10:spectator:range")
            continue
        worst = 0.0
        for T in np.linspace(th.TMinLowT + 0.02 * (th.TMaxLowT - th.TMinLowT), th.TMaxLowT - 0.02 * (th.TMaxLowT - th.TMinLowT), 25):
            P, CS = float(th.pLowT(T)), float(th.csqLowT(T))
            ex = float(-ref.VBroken(T))
            worst = max(worst, abs(P - ex) / abs(ex))
            if not abs(P - ex) <= max(1e-05, 30 * rTol_) * abs(ex) or not 0 < CS < 1:
                rep.violation("inside the tabulated range of the low-T phase p is not -Veff(min) or the sound speed is not in (0,1)",
                              dict(inf_, T=float(T), p=P, minus_Veff_min=ex, csq=CS), finding_key="C10:spectator:inside")
                break
