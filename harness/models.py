"""
Analytic toy models with closed-form phases, used to drive the real WallGo classes.

Toy1 : V(phi,T) = D (T^2 - T0^2) phi^2 - E T phi^3 + lam/4 phi^4 - a T^4
       minima: phi = 0 (T > T0) and phi_b(T) = [3 E T + sqrt(9 E^2 T^2 - 8 lam D (T^2 - T0^2))]/(2 lam)
       spinodals: T0 (symmetric phase) and T1 with 9E^2 T1^2 = 8 lam D (T1^2 - T0^2) (broken phase)
Toy2 : Toy1 in phi plus a second field s with  ms2/2 s^2 + ls/4 s^4 + kap/2 phi^2 s^2 (s = 0 in both phases)
A unit factor `u` rescales fields and temperatures by u and V by u^4 (for covariance checks).
"""
from __future__ import annotations

import math
import warnings

import numpy as np


def _wg():
    import WallGo
    return WallGo


def toy1_class():
    WallGo = _wg()

    class Toy1(WallGo.EffectivePotential):
        fieldCount = 1
        effectivePotentialError = 1e-15

        def __init__(self, D=0.1, E=0.06, lam=0.1, T0=1.0, a=3.0, u=1.0):
            self.D, self.E, self.lam, self.T0, self.a, self.u = D, E, lam, T0 * u, a, u

        def evaluate(self, fields, temperature):
            phi = fields.getField(0)
            T = np.asarray(temperature)
            return (self.D * (T ** 2 - self.T0 ** 2) * phi ** 2 - self.E * T * phi ** 3
                    + self.lam / 4 * phi ** 4 - self.a * T ** 4)

        def grad(self, x, T):
            phi = x[0]
            return np.array([2 * self.D * (T ** 2 - self.T0 ** 2) * phi - 3 * self.E * T * phi ** 2 + self.lam * phi ** 3])

        def hess(self, x, T):
            phi = x[0]
            return np.array([[2 * self.D * (T ** 2 - self.T0 ** 2) - 6 * self.E * T * phi + 3 * self.lam * phi ** 2]])

        # closed forms
        def phiBroken(self, T):
            disc = 9 * self.E ** 2 * T ** 2 - 8 * self.lam * self.D * (T ** 2 - self.T0 ** 2)
            return (3 * self.E * T + np.sqrt(disc)) / (2 * self.lam)

        def VBroken(self, T):
            p = self.phiBroken(T)
            return self.D * (T ** 2 - self.T0 ** 2) * p ** 2 - self.E * T * p ** 3 + self.lam / 4 * p ** 4 - self.a * T ** 4

        def VSym(self, T):
            return -self.a * T ** 4

        def T1(self):
            # 9E^2 T^2 = 8 lam D (T^2 - T0^2)
            return self.T0 * math.sqrt(8 * self.lam * self.D / (8 * self.lam * self.D - 9 * self.E ** 2))

        def Tc(self):
            # degenerate minima: lam D (T^2-T0^2) = E^2 T^2
            return self.T0 * math.sqrt(self.lam * self.D / (self.lam * self.D - self.E ** 2))

    return Toy1


def toy1r_class():
    """Toy1 in a ROTATED two-field basis plus a heavy orthogonal direction: V = Toy1(u) + m2/2 T^2 w^2 with
    u = c x1 + s x2, w = -s x1 + c x2.  The Hessian at the broken minimum (c phi_b, s phi_b) is NOT diagonal in (x1, x2)."""
    Toy1 = toy1_class()

    class Toy1r(Toy1):
        fieldCount = 2

        def __init__(self, theta=0.6, m2=0.8, **kw):
            super().__init__(**kw)
            self.theta, self.m2 = theta, m2
            self.c, self.s = math.cos(theta), math.sin(theta)

        def evaluate(self, fields, temperature):
            x1, x2 = fields.getField(0), fields.getField(1)
            uu, ww = self.c * x1 + self.s * x2, -self.s * x1 + self.c * x2
            T = np.asarray(temperature)
            return (self.D * (T ** 2 - self.T0 ** 2) * uu ** 2 - self.E * T * uu ** 3 + self.lam / 4 * uu ** 4 - self.a * T ** 4
                    + self.m2 / 2 * T ** 2 * ww ** 2)

        def grad(self, x, T):
            uu, ww = self.c * x[0] + self.s * x[1], -self.s * x[0] + self.c * x[1]
            gu = 2 * self.D * (T ** 2 - self.T0 ** 2) * uu - 3 * self.E * T * uu ** 2 + self.lam * uu ** 3
            gw = self.m2 * T ** 2 * ww
            return np.array([self.c * gu - self.s * gw, self.s * gu + self.c * gw])

        def hess(self, x, T):
            uu = self.c * x[0] + self.s * x[1]
            huu = 2 * self.D * (T ** 2 - self.T0 ** 2) - 6 * self.E * T * uu + 3 * self.lam * uu ** 2
            hww = self.m2 * T ** 2
            R = np.array([[self.c, self.s], [-self.s, self.c]])
            return R.T @ np.diag([huu, hww]) @ R

        def brokenPoint(self, T):
            p = float(self.phiBroken(T))
            return np.array([self.c * p, self.s * p])

    return Toy1r


def toy2_class():
    WallGo = _wg()

    class Toy2(WallGo.EffectivePotential):
        fieldCount = 2
        effectivePotentialError = 1e-15

        def __init__(self, D=0.1, E=0.06, lam=0.1, T0=1.0, a=3.0, ms2=0.5, ls=0.2, kap=0.3, u=1.0,
                     perm=(0, 1), signs=(1.0, 1.0), shift=(0.0, 0.0)):
            self.D, self.E, self.lam, self.T0, self.a, self.u = D, E, lam, T0 * u, a, u
            self.ms2, self.ls, self.kap = ms2 * u * u, ls, kap
            self.perm, self.signs, self.shift = perm, signs, shift

        def evaluate(self, fields, temperature):
            x = [fields.getField(0), fields.getField(1)]
            # undo relabelling: internal (phi, s) = signs * (x[perm] - shift[perm])
            phi = self.signs[0] * (x[self.perm[0]] - self.shift[self.perm[0]])
            s = self.signs[1] * (x[self.perm[1]] - self.shift[self.perm[1]])
            T = np.asarray(temperature)
            return (self.D * (T ** 2 - self.T0 ** 2) * phi ** 2 - self.E * T * phi ** 3 + self.lam / 4 * phi ** 4
                    - self.a * T ** 4 + self.ms2 / 2 * s ** 2 + self.ls / 4 * s ** 4 + self.kap / 2 * phi ** 2 * s ** 2)

        # closed forms for the identity labelling (perm=(0,1), signs=(1,1), shift=(0,0)): the second field is a spectator, 0 in both phases
        def grad(self, x, T):
            phi, s = x[0], x[1]
            return np.array([2 * self.D * (T ** 2 - self.T0 ** 2) * phi - 3 * self.E * T * phi ** 2 + self.lam * phi ** 3 + self.kap * phi * s ** 2,
                             self.ms2 * s + self.ls * s ** 3 + self.kap * phi ** 2 * s])

        def hess(self, x, T):
            phi, s = x[0], x[1]
            return np.array([[2 * self.D * (T ** 2 - self.T0 ** 2) - 6 * self.E * T * phi + 3 * self.lam * phi ** 2 + self.kap * s ** 2, 2 * self.kap * phi * s],
                             [2 * self.kap * phi * s, self.ms2 + 3 * self.ls * s ** 2 + self.kap * phi ** 2]])

    return Toy2


def toy2b_class():
    """Two decoupled Toy1 sectors (both fields change across the wall), with optional relabelling of field space:
    user fields x relate to the internal (phi, s) by  phi = signs[0]*(x[perm[0]] - shift[perm[0]]), s = signs[1]*(x[perm[1]] - shift[perm[1]])."""
    WallGo = _wg()

    class Toy2b(WallGo.EffectivePotential):
        fieldCount = 2
        effectivePotentialError = 1e-15

        def __init__(self, D=0.1, E=0.06, lam=0.1, T0=1.0, a=3.0, D2=0.1, E2=0.06, lam2=0.1, T02=0.98, u=1.0,
                     perm=(0, 1), signs=(1.0, 1.0), shift=(0.0, 0.0)):
            self.D, self.E, self.lam, self.T0, self.a, self.u = D, E, lam, T0 * u, a, u
            self.D2, self.E2, self.lam2, self.T02 = D2, E2, lam2, T02 * u
            self.perm, self.signs, self.shift = tuple(perm), tuple(signs), tuple(s_ * u for s_ in shift)

        def internal(self, fields):
            x = [fields.getField(0), fields.getField(1)]
            phi = self.signs[0] * (x[self.perm[0]] - self.shift[self.perm[0]])
            s = self.signs[1] * (x[self.perm[1]] - self.shift[self.perm[1]])
            return phi, s

        def user(self, phi, s):
            v = [0.0, 0.0]
            v[self.perm[0]] = self.signs[0] * phi + self.shift[self.perm[0]]
            v[self.perm[1]] = self.signs[1] * s + self.shift[self.perm[1]]
            return v

        def evaluate(self, fields, temperature):
            phi, s = self.internal(fields)
            T = np.asarray(temperature)
            return (self.D * (T ** 2 - self.T0 ** 2) * phi ** 2 - self.E * T * phi ** 3 + self.lam / 4 * phi ** 4
                    + self.D2 * (T ** 2 - self.T02 ** 2) * s ** 2 - self.E2 * T * s ** 3 + self.lam2 / 4 * s ** 4 - self.a * T ** 4)

        @staticmethod
        def _pb(D, E, lam, T0, T):
            return (3 * E * T + np.sqrt(9 * E ** 2 * T ** 2 - 8 * lam * D * (T ** 2 - T0 ** 2))) / (2 * lam)

        def broken(self, T):
            return self._pb(self.D, self.E, self.lam, self.T0, T), self._pb(self.D2, self.E2, self.lam2, self.T02, T)

        def dV(self, T):
            """V(broken) - V(symmetric)"""
            p, s = self.broken(T)
            return (self.D * (T ** 2 - self.T0 ** 2) * p ** 2 - self.E * T * p ** 3 + self.lam / 4 * p ** 4
                    + self.D2 * (T ** 2 - self.T02 ** 2) * s ** 2 - self.E2 * T * s ** 3 + self.lam2 / 4 * s ** 4)

        def T1(self):
            def t1(D, E, lam, T0):
                return T0 * math.sqrt(8 * lam * D / (8 * lam * D - 9 * E ** 2))
            return min(t1(self.D, self.E, self.lam, self.T0), t1(self.D2, self.E2, self.lam2, self.T02))

        def Tsym(self):
            return max(self.T0, self.T02)

        def Tc(self):
            from scipy.optimize import brentq
            return brentq(self.dV, self.Tsym() * 1.0001, self.T1() * 0.9999)

    return Toy2b


def toy2c_class():
    """Two-step (singlet-like) model: high-T phase (0, s_h(T)), low-T phase (phi_b(T), 0), portal coupling kap/2 phi^2 s^2.
    V = D(T^2-T0^2)phi^2 - E T phi^3 + lam/4 phi^4 + cs(T^2-Ts^2)/2 s^2 + ls/4 s^4 + kap/2 phi^2 s^2 - a T^4.  Relabelling as in Toy2b."""
    Toy2b = toy2b_class()

    class Toy2c(Toy2b):
        def __init__(self, D=0.1, E=0.06, lam=0.1, T0=1.0, a=3.0, cs=0.05, Ts=1.6, ls=0.5, kap=0.3, u=1.0,
                     perm=(0, 1), signs=(1.0, 1.0), shift=(0.0, 0.0)):
            self.D, self.E, self.lam, self.T0, self.a, self.u = D, E, lam, T0 * u, a, u
            self.cs, self.Ts, self.ls, self.kap = cs, Ts * u, ls, kap
            self.perm, self.signs, self.shift = tuple(perm), tuple(signs), tuple(s_ * u for s_ in shift)

        def evaluate(self, fields, temperature):
            phi, s = self.internal(fields)
            T = np.asarray(temperature)
            return (self.D * (T ** 2 - self.T0 ** 2) * phi ** 2 - self.E * T * phi ** 3 + self.lam / 4 * phi ** 4
                    + self.cs * (T ** 2 - self.Ts ** 2) / 2 * s ** 2 + self.ls / 4 * s ** 4 + self.kap / 2 * phi ** 2 * s ** 2 - self.a * T ** 4)

        def grad(self, x, T):
            """gradient w.r.t. the USER fields"""
            phi = self.signs[0] * (x[self.perm[0]] - self.shift[self.perm[0]])
            s = self.signs[1] * (x[self.perm[1]] - self.shift[self.perm[1]])
            gphi = 2 * self.D * (T ** 2 - self.T0 ** 2) * phi - 3 * self.E * T * phi ** 2 + self.lam * phi ** 3 + self.kap * phi * s ** 2
            gs = self.cs * (T ** 2 - self.Ts ** 2) * s + self.ls * s ** 3 + self.kap * phi ** 2 * s
            g = np.zeros(2)
            g[self.perm[0]], g[self.perm[1]] = self.signs[0] * gphi, self.signs[1] * gs
            return g

        def hess(self, x, T):
            phi = self.signs[0] * (x[self.perm[0]] - self.shift[self.perm[0]])
            s = self.signs[1] * (x[self.perm[1]] - self.shift[self.perm[1]])
            hpp = 2 * self.D * (T ** 2 - self.T0 ** 2) - 6 * self.E * T * phi + 3 * self.lam * phi ** 2 + self.kap * s ** 2
            hss = self.cs * (T ** 2 - self.Ts ** 2) + 3 * self.ls * s ** 2 + self.kap * phi ** 2
            hps = 2 * self.kap * phi * s
            H = np.zeros((2, 2))
            a, b = self.perm
            H[a, a], H[b, b] = hpp, hss
            H[a, b] = H[b, a] = self.signs[0] * self.signs[1] * hps
            return H

        def phiB(self, T):
            return self._pb(self.D, self.E, self.lam, self.T0, T)

        def sH(self, T):
            return np.sqrt(self.cs * (self.Ts ** 2 - T ** 2) / self.ls)

        def VLow(self, T):
            p = self.phiB(T)
            return self.D * (T ** 2 - self.T0 ** 2) * p ** 2 - self.E * T * p ** 3 + self.lam / 4 * p ** 4 - self.a * T ** 4

        def VHigh(self, T):
            m = self.cs * (T ** 2 - self.Ts ** 2)
            return -m ** 2 / (4 * self.ls) - self.a * T ** 4

        def Tc(self):
            from scipy.optimize import brentq
            hi = min(self.T0 * math.sqrt(8 * self.lam * self.D / (8 * self.lam * self.D - 9 * self.E ** 2)), self.Ts) * 0.999
            return brentq(lambda T: self.VLow(T) - self.VHigh(T), self.T0 * 1.001, hi)

    return Toy2c


_cache: dict = {}


def make_thermo(kind="toy1", params=None, TnFrac=0.6, tminFrac=0.6, tmaxFrac=1.6, rTol=1e-6, Tscale=None, key=None, guess_err=0.0, cross=False):
    """Real WallGo.Thermodynamics on a toy model with both phases traced; Tn = T0 + TnFrac (Tc - T0).
    guess_err: relative error put on the broken-phase location handed to Thermodynamics (the docstring allows an approximate guess;
    toy1/toy2 only).  Returns (thermo, model, info)."""
    params = dict(params or {})
    ck = key or (kind, tuple(sorted(params.items())), TnFrac, tminFrac, tmaxFrac, rTol, Tscale, guess_err, cross)
    if ck in _cache:
        return _cache[ck]
    WallGo = _wg()
    from WallGo.thermodynamics import Thermodynamics
    from WallGo.fields import Fields
    warnings.simplefilter("ignore")
    if kind == "toy2b":
        return _make_thermo_2b(params, TnFrac, tminFrac, tmaxFrac, rTol, Tscale, ck)
    if kind == "toy2c":
        return _make_thermo_2c(params, TnFrac, tminFrac, tmaxFrac, rTol, Tscale, ck)
    Toy1 = toy1_class()
    ref = Toy1(**{k: v for k, v in params.items() if k in ("D", "E", "lam", "T0", "a", "u")})
    if kind == "toy1":
        model = ref
    else:
        model = toy2_class()(**params)
    Tc = ref.Tc()
    Tn = ref.T0 + TnFrac * (Tc - ref.T0)
    u = ref.u
    Ts = Tscale if Tscale is not None else 0.1 * u * (ref.T0 / u)
    fs = float(ref.phiBroken(Tn)) or 1.0
    model.configureDerivatives(WallGo.VeffDerivativeSettings(temperatureVariationScale=float(Ts),
                                                             fieldValueVariationScale=float(fs)))
    if kind == "toy1":
        low = Fields([float(ref.phiBroken(Tn)) * (1 + guess_err)])
        high = Fields([0.0])
    else:
        def lab(phi, s):
            v = [0.0, 0.0]
            v[model.perm[0]] = model.signs[0] * phi + model.shift[model.perm[0]]
            v[model.perm[1]] = model.signs[1] * s + model.shift[model.perm[1]]
            return v
        low = Fields(lab(float(ref.phiBroken(Tn)) * (1 + guess_err), 0.0))
        high = Fields(lab(0.0, 0.0))
    th = Thermodynamics(model, Tn, low, high)
    th.freeEnergyHigh.disableAdaptiveInterpolation()
    th.freeEnergyLow.disableAdaptiveInterpolation()
    dT = Ts * rTol ** 0.25
    T0, T1 = ref.T0, ref.T1()
    loH = max(tminFrac * Tn, T0 * 1.02)
    hiL = tmaxFrac * Tn if cross else min(tmaxFrac * Tn, T1 * 0.98)      # cross: the requested range of the low-T phase reaches past its spinodal
    th.freeEnergyHigh.tracePhase(loH, tmaxFrac * Tn, dT, rTol=rTol)
    th.freeEnergyLow.tracePhase(tminFrac * Tn, hiL, dT, rTol=rTol)
    th.setExtrapolate()
    info = {"Tc": Tc, "Tn": Tn, "T0": T0, "T1": T1, "dT": dT, "ref": ref}
    _cache[ck] = (th, model, info)
    return _cache[ck]


def _make_thermo_2b(params, TnFrac, tminFrac, tmaxFrac, rTol, Tscale, ck):
    WallGo = _wg()
    from WallGo.thermodynamics import Thermodynamics
    from WallGo.fields import Fields
    model = toy2b_class()(**params)
    u = model.u
    Tc = model.Tc()
    Ts0 = model.Tsym()
    Tn = Ts0 + TnFrac * (Tc - Ts0)
    Ts = Tscale if Tscale is not None else 0.1 * Ts0
    pb, sb = (float(x) for x in model.broken(Tn))
    scales = [0.0, 0.0]
    scales[model.perm[0]], scales[model.perm[1]] = pb, sb
    model.configureDerivatives(WallGo.VeffDerivativeSettings(temperatureVariationScale=float(Ts), fieldValueVariationScale=scales))
    th = Thermodynamics(model, Tn, Fields(model.user(pb, sb)), Fields(model.user(0.0, 0.0)))
    th.freeEnergyHigh.disableAdaptiveInterpolation()
    th.freeEnergyLow.disableAdaptiveInterpolation()
    dT = Ts * rTol ** 0.25
    th.freeEnergyHigh.tracePhase(max(tminFrac * Tn, Ts0 * 1.02), tmaxFrac * Tn, dT, rTol=rTol)
    th.freeEnergyLow.tracePhase(tminFrac * Tn, min(tmaxFrac * Tn, model.T1() * 0.98), dT, rTol=rTol)
    th.setExtrapolate()
    info = {"Tc": Tc, "Tn": Tn, "T0": Ts0, "T1": model.T1(), "dT": dT, "ref": model}
    _cache[ck] = (th, model, info)
    return _cache[ck]


def _make_thermo_2c(params, TnFrac, tminFrac, tmaxFrac, rTol, Tscale, ck):
    WallGo = _wg()
    from WallGo.thermodynamics import Thermodynamics
    from WallGo.fields import Fields
    model = toy2c_class()(**params)
    Tc = model.Tc()
    Tn = model.T0 + TnFrac * (Tc - model.T0)
    Ts = Tscale if Tscale is not None else 0.1 * model.T0
    pb, sh = float(model.phiB(Tn)), float(model.sH(Tn))
    scales = [0.0, 0.0]
    scales[model.perm[0]], scales[model.perm[1]] = pb, sh
    model.configureDerivatives(WallGo.VeffDerivativeSettings(temperatureVariationScale=float(Ts), fieldValueVariationScale=scales))
    th = Thermodynamics(model, Tn, Fields(model.user(pb, 0.0)), Fields(model.user(0.0, sh)))
    th.freeEnergyHigh.disableAdaptiveInterpolation()
    th.freeEnergyLow.disableAdaptiveInterpolation()
    dT = Ts * rTol ** 0.25
    T1 = model.T0 * math.sqrt(8 * model.lam * model.D / (8 * model.lam * model.D - 9 * model.E ** 2))
    th.freeEnergyHigh.tracePhase(max(tminFrac * Tn, model.T0 * 1.02), min(tmaxFrac * Tn, model.Ts * 0.98), dT, rTol=rTol)
    th.freeEnergyLow.tracePhase(tminFrac * Tn, min(tmaxFrac * Tn, T1 * 0.98), dT, rTol=rTol)
    th.setExtrapolate()
    info = {"Tc": Tc, "Tn": Tn, "T0": model.T0, "T1": T1, "dT": dT, "ref": model}
    _cache[ck] = (th, model, info)
    return _cache[ck]


def twostep_eos(abrok=0.2, asym=0.1, musq=0.4, Tn=0.7, Tmax=5.0):
    """Closed-form polynomial two-step equation of state (toy xSM of 2004.06995): a real WallGo.Thermodynamics
    subclass whose p, dp, ddp are overridden (e, w, csq, alpha are the library's own).  Sound speeds depend on T."""
    from types import SimpleNamespace
    from WallGo.thermodynamics import Thermodynamics

    class TwoStep(Thermodynamics):
        def __init__(self):
            self.aLowT, self.aHighT, self.musq, self.Tnucl = abrok, asym, musq, Tn
            self.freeEnergyHigh = SimpleNamespace(minPossibleTemperature=[0.01, False], maxPossibleTemperature=[Tmax, False])
            self.freeEnergyLow = SimpleNamespace(minPossibleTemperature=[0.01, False], maxPossibleTemperature=[Tmax, False])
            self.TMinLowT = self.TMinHighT = 0.01
            self.TMaxLowT = self.TMaxHighT = Tmax

        def pHighT(self, T): return T ** 4 + (self.aLowT - self.aHighT + self.aHighT * T ** 2 - self.musq) ** 2 - self.musq ** 2
        def dpHighT(self, T): return 4 * T ** 3 + 4 * self.aHighT * T * (self.aLowT - self.aHighT + self.aHighT * T ** 2 - self.musq)
        def ddpHighT(self, T): return 12 * T ** 2 + 8 * self.aHighT ** 2 * T ** 2 + 4 * self.aHighT * (self.aLowT - self.aHighT + self.aHighT * T ** 2 - self.musq)
        def pLowT(self, T): return T ** 4 + (self.aLowT * T ** 2 - self.musq) ** 2 - self.musq ** 2
        def dpLowT(self, T): return 4 * T ** 3 + 4 * self.aLowT * T * (self.aLowT * T ** 2 - self.musq)
        def ddpLowT(self, T): return 12 * T ** 2 + 8 * self.aLowT ** 2 * T ** 2 + 4 * self.aLowT * (self.aLowT * T ** 2 - self.musq)
        def csqHighT(self, T): return self.dpHighT(T) / self.deHighT(T)
        def csqLowT(self, T): return self.dpLowT(T) / self.deLowT(T)
    return TwoStep()


class BagEOS:
    """Duck-typed stand-in for Thermodynamics with a closed-form template/bag equation of state:
    p_+ = a_+ T^mu/3 - eps, p_- = a_- T^nu/3.  Used to drive the real Hydrodynamics classes."""

    def __init__(self, ap=3.0, am=2.4, eps=0.2, mu=4.0, nu=4.0, Tn=1.0, TminP=None, TmaxP=None):
        self.ap, self.am, self.eps, self.mu, self.nu = ap, am, eps, mu, nu
        self.Tnucl = Tn
        from types import SimpleNamespace
        lo = 0.0 if TminP is None else TminP
        hi = np.inf if TmaxP is None else TmaxP
        self.freeEnergyHigh = SimpleNamespace(minPossibleTemperature=[lo, False], maxPossibleTemperature=[hi, False])
        self.freeEnergyLow = SimpleNamespace(minPossibleTemperature=[lo, False], maxPossibleTemperature=[hi, False])

    def pHighT(self, T): return self.ap / 3 * T ** self.mu - self.eps
    def dpHighT(self, T): return self.mu * self.ap / 3 * T ** (self.mu - 1)
    def ddpHighT(self, T): return self.mu * (self.mu - 1) * self.ap / 3 * T ** (self.mu - 2)
    def wHighT(self, T): return T * self.dpHighT(T)
    def eHighT(self, T): return self.wHighT(T) - self.pHighT(T)
    def deHighT(self, T): return T * self.ddpHighT(T)
    def csqHighT(self, T): return self.dpHighT(T) / self.deHighT(T)
    def pLowT(self, T): return self.am / 3 * T ** self.nu
    def dpLowT(self, T): return self.nu * self.am / 3 * T ** (self.nu - 1)
    def ddpLowT(self, T): return self.nu * (self.nu - 1) * self.am / 3 * T ** (self.nu - 2)
    def wLowT(self, T): return T * self.dpLowT(T)
    def eLowT(self, T): return self.wLowT(T) - self.pLowT(T)
    def deLowT(self, T): return T * self.ddpLowT(T)
    def csqLowT(self, T): return self.dpLowT(T) / self.deLowT(T)

    def alpha(self, T):
        return (self.eHighT(T) - self.eLowT(T) - (self.pHighT(T) - self.pLowT(T)) / self.csqLowT(T)) / 3 / self.wHighT(T)


class SoftEOS(BagEOS):
    """High-T phase with a temperature-dependent sound speed, p_+ = T^4 (1 - c/(1+(T/Ts)^4)) - eps (entropy positive, cs^2 between ~0.23 and 1/3),
    low-T phase of template form p_- = amp T^nu, nu = 1 + 1/cb2; eps fixed by Tc = 1.  Closed-form derivatives."""

    def __init__(self, c=0.7, Ts=0.8, amp=0.62, cb2=0.22, Tn=0.8):
        nu = 1 + 1 / cb2
        BagEOS.__init__(self, ap=3.0, am=3 * amp, eps=0.0, mu=4.0, nu=nu, Tn=Tn)
        self.c, self.Ts = c, Ts
        self.eps = float(1.0 - c / (1 + (1 / Ts) ** 4) - amp)

    def _s(self, T): return (T / self.Ts) ** 4
    def pHighT(self, T): return T ** 4 * (1 - self.c / (1 + self._s(T))) - self.eps
    def _G(self, T):
        s = self._s(T)
        return 1 - self.c / (1 + s) + self.c * s / (1 + s) ** 2
    def dpHighT(self, T): return 4 * T ** 3 * self._G(T)
    def ddpHighT(self, T):
        s = self._s(T)
        return 12 * T ** 2 * self._G(T) + 32 * self.c * s * T ** 2 / (1 + s) ** 3


class ScaledEOS(BagEOS):
    """The equation of state `base` written in other units: p(T) = s^4 p_base(T / s) (temperatures multiplied by s), same physics."""

    def __init__(self, base, s):
        self.base, self.s = base, float(s)
        self.Tnucl = base.Tnucl * self.s
        from types import SimpleNamespace

        def rng(fe):
            return SimpleNamespace(minPossibleTemperature=[fe.minPossibleTemperature[0] * self.s, fe.minPossibleTemperature[1]],
                                   maxPossibleTemperature=[fe.maxPossibleTemperature[0] * self.s, fe.maxPossibleTemperature[1]])
        self.freeEnergyHigh, self.freeEnergyLow = rng(base.freeEnergyHigh), rng(base.freeEnergyLow)

    def pHighT(self, T): return self.s ** 4 * self.base.pHighT(T / self.s)
    def dpHighT(self, T): return self.s ** 3 * self.base.dpHighT(T / self.s)
    def ddpHighT(self, T): return self.s ** 2 * self.base.ddpHighT(T / self.s)
    def pLowT(self, T): return self.s ** 4 * self.base.pLowT(T / self.s)
    def dpLowT(self, T): return self.s ** 3 * self.base.dpLowT(T / self.s)
    def ddpLowT(self, T): return self.s ** 2 * self.base.ddpLowT(T / self.s)


def template_from(alN, psiN, cb2, cs2, Tn=1.0, ap=3.0):
    """BagEOS (template form) with prescribed transition strength alpha_n, enthalpy ratio psi_n and sound speeds (cb2 broken, cs2 symmetric)."""
    from scipy.optimize import brentq
    mu, nu = 1 + 1 / cs2, 1 + 1 / cb2
    wH = mu * ap / 3 * Tn ** mu
    am = 3 * psiN * wH / (nu * Tn ** nu)
    scale = wH
    eps = brentq(lambda e: float(BagEOS(ap=ap, am=am, eps=e, mu=mu, nu=nu, Tn=Tn).alpha(Tn)) - alN, -10 * scale, 10 * scale)
    return BagEOS(ap=ap, am=am, eps=eps, mu=mu, nu=nu, Tn=Tn)

