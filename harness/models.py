"""
Analytic toy models with closed-form phases, used to drive the real WallGo classes.

Toy1 : V(phi,T) = D (T^2 - T0^2) phi^2 - E T phi^3 + lam/4 phi^4 - a T^4
       minima: phi = 0 (T > T0) and phi_b(T) = [3 E T + sqrt(9 E^2 T^2 - 8 lam D (T^2 - T0^2))]/(2 lam)
       spinodals: T0 (symmetric phase) and T1 with 9E^2 T1^2 = 8 lam D (T1^2 - T0^2) (broken phase)
Toy2 : Toy1 in phi plus a second field s with  ms2/2 s^2 + ls/4 s^4 + kap/2 phi^2 s^2 (s = 0 in both phases)
A unit factor `u` rescales fields and temperatures by u and V by u^4 (for covariance checks).
"""
from __future__ import annotations

import math
import warnings

import numpy as np


def _wg():
    import WallGo
    return WallGo


def toy1_class():
    WallGo = _wg()

    class Toy1(WallGo.EffectivePotential):
        fieldCount = 1
        effectivePotentialError = 1e-15

        def __init__(self, D=0.1, E=0.06, lam=0.1, T0=1.0, a=3.0, u=1.0):
            self.D, self.E, self.lam, self.T0, self.a, self.u = D, E, lam, T0 * u, a, u

        def evaluate(self, fields, temperature):
            phi = fields.getField(0)
            T = np.asarray(temperature)
            return (self.D * (T ** 2 - self.T0 ** 2) * phi ** 2 - self.E * T * phi ** 3
                    + self.lam / 4 * phi ** 4 - self.a * T ** 4)

        # closed forms
        def phiBroken(self, T):
            disc = 9 * self.E ** 2 * T ** 2 - 8 * self.lam * self.D * (T ** 2 - self.T0 ** 2)
            return (3 * self.E * T + np.sqrt(disc)) / (2 * self.lam)

        def VBroken(self, T):
            p = self.phiBroken(T)
            return self.D * (T ** 2 - self.T0 ** 2) * p ** 2 - self.E * T * p ** 3 + self.lam / 4 * p ** 4 - self.a * T ** 4

        def VSym(self, T):
            return -self.a * T ** 4

        def T1(self):
            # 9E^2 T^2 = 8 lam D (T^2 - T0^2)
            return self.T0 * math.sqrt(8 * self.lam * self.D / (8 * self.lam * self.D - 9 * self.E ** 2))

        def Tc(self):
            # degenerate minima: lam D (T^2-T0^2) = E^2 T^2
            return self.T0 * math.sqrt(self.lam * self.D / (self.lam * self.D - self.E ** 2))

    return Toy1


def toy2_class():
    WallGo = _wg()

    class Toy2(WallGo.EffectivePotential):
        fieldCount = 2
        effectivePotentialError = 1e-15

        def __init__(self, D=0.1, E=0.06, lam=0.1, T0=1.0, a=3.0, ms2=0.5, ls=0.2, kap=0.3, u=1.0,
                     perm=(0, 1), signs=(1.0, 1.0), shift=(0.0, 0.0)):
            self.D, self.E, self.lam, self.T0, self.a, self.u = D, E, lam, T0 * u, a, u
            self.ms2, self.ls, self.kap = ms2 * u * u, ls, kap
            self.perm, self.signs, self.shift = perm, signs, shift

        def evaluate(self, fields, temperature):
            x = [fields.getField(0), fields.getField(1)]
            # undo relabelling: internal (phi, s) = signs * (x[perm] - shift[perm])
            phi = self.signs[0] * (x[self.perm[0]] - self.shift[self.perm[0]])
            s = self.signs[1] * (x[self.perm[1]] - self.shift[self.perm[1]])
            T = np.asarray(temperature)
            return (self.D * (T ** 2 - self.T0 ** 2) * phi ** 2 - self.E * T * phi ** 3 + self.lam / 4 * phi ** 4
                    - self.a * T ** 4 + self.ms2 / 2 * s ** 2 + self.ls / 4 * s ** 4 + self.kap / 2 * phi ** 2 * s ** 2)

    return Toy2


_cache: dict = {}


def make_thermo(kind="toy1", params=None, TnFrac=0.6, tminFrac=0.6, tmaxFrac=1.6, rTol=1e-6, Tscale=None, key=None):
    """Real WallGo.Thermodynamics on a toy model with both phases traced; Tn = T0 + TnFrac (Tc - T0).
    Returns (thermo, model, info)."""
    params = dict(params or {})
    ck = key or (kind, tuple(sorted(params.items())), TnFrac, tminFrac, tmaxFrac, rTol, Tscale)
    if ck in _cache:
        return _cache[ck]
    WallGo = _wg()
    from WallGo.thermodynamics import Thermodynamics
    from WallGo.fields import Fields
    warnings.simplefilter("ignore")
    Toy1 = toy1_class()
    ref = Toy1(**{k: v for k, v in params.items() if k in ("D", "E", "lam", "T0", "a", "u")})
    if kind == "toy1":
        model = ref
    else:
        model = toy2_class()(**params)
    Tc = ref.Tc()
    Tn = ref.T0 + TnFrac * (Tc - ref.T0)
    u = ref.u
    Ts = Tscale if Tscale is not None else 0.1 * u * (ref.T0 / u)
    fs = float(ref.phiBroken(Tn)) or 1.0
    model.configureDerivatives(WallGo.VeffDerivativeSettings(temperatureVariationScale=float(Ts),
                                                             fieldValueVariationScale=float(fs)))
    if kind == "toy1":
        low = Fields([float(ref.phiBroken(Tn))])
        high = Fields([0.0])
    else:
        def lab(phi, s):
            v = [0.0, 0.0]
            v[model.perm[0]] = model.signs[0] * phi + model.shift[model.perm[0]]
            v[model.perm[1]] = model.signs[1] * s + model.shift[model.perm[1]]
            return v
        low = Fields(lab(float(ref.phiBroken(Tn)), 0.0))
        high = Fields(lab(0.0, 0.0))
    th = Thermodynamics(model, Tn, low, high)
    th.freeEnergyHigh.disableAdaptiveInterpolation()
    th.freeEnergyLow.disableAdaptiveInterpolation()
    dT = Ts * rTol ** 0.25
    T0, T1 = ref.T0, ref.T1()
    loH = max(tminFrac * Tn, T0 * 1.02)
    hiL = min(tmaxFrac * Tn, T1 * 0.98)
    th.freeEnergyHigh.tracePhase(loH, tmaxFrac * Tn, dT, rTol=rTol)
    th.freeEnergyLow.tracePhase(tminFrac * Tn, hiL, dT, rTol=rTol)
    th.setExtrapolate()
    info = {"Tc": Tc, "Tn": Tn, "T0": T0, "T1": T1, "dT": dT, "ref": ref}
    _cache[ck] = (th, model, info)
    return _cache[ck]


class BagEOS:
    """Duck-typed stand-in for Thermodynamics with a closed-form template/bag equation of state:
    p_+ = a_+ T^mu/3 - eps, p_- = a_- T^nu/3.  Used to drive the real Hydrodynamics classes."""

    def __init__(self, ap=3.0, am=2.4, eps=0.2, mu=4.0, nu=4.0, Tn=1.0, TminP=None, TmaxP=None):
        self.ap, self.am, self.eps, self.mu, self.nu = ap, am, eps, mu, nu
        self.Tnucl = Tn
        from types import SimpleNamespace
        lo = 0.0 if TminP is None else TminP
        hi = np.inf if TmaxP is None else TmaxP
        self.freeEnergyHigh = SimpleNamespace(minPossibleTemperature=[lo, False], maxPossibleTemperature=[hi, False])
        self.freeEnergyLow = SimpleNamespace(minPossibleTemperature=[lo, False], maxPossibleTemperature=[hi, False])

    def pHighT(self, T): return self.ap / 3 * T ** self.mu - self.eps
    def dpHighT(self, T): return self.mu * self.ap / 3 * T ** (self.mu - 1)
    def ddpHighT(self, T): return self.mu * (self.mu - 1) * self.ap / 3 * T ** (self.mu - 2)
    def wHighT(self, T): return T * self.dpHighT(T)
    def eHighT(self, T): return self.wHighT(T) - self.pHighT(T)
    def deHighT(self, T): return T * self.ddpHighT(T)
    def csqHighT(self, T): return self.dpHighT(T) / self.deHighT(T)
    def pLowT(self, T): return self.am / 3 * T ** self.nu
    def dpLowT(self, T): return self.nu * self.am / 3 * T ** (self.nu - 1)
    def ddpLowT(self, T): return self.nu * (self.nu - 1) * self.am / 3 * T ** (self.nu - 2)
    def wLowT(self, T): return T * self.dpLowT(T)
    def eLowT(self, T): return self.wLowT(T) - self.pLowT(T)
    def deLowT(self, T): return T * self.ddpLowT(T)
    def csqLowT(self, T): return self.dpLowT(T) / self.deLowT(T)

    def alpha(self, T):
        return (self.eHighT(T) - self.eLowT(T) - (self.pHighT(T) - self.pLowT(T)) / self.csqLowT(T)) / 3 / self.wHighT(T)
