#!/bin/bash
# usage: harness/verify_seed.sh seeded/<name>   -- confirms: demo exits 1 with the patch, 0 without; existing suite unchanged with the patch
D=$(readlink -f "$1")
S=$(mktemp -d /tmp/wgver_XXXX)
rsync -a --exclude .git /repo/ "$S"/
(cd "$S" && patch -p1 -s < "$D/patch.diff") || { echo "PATCH FAILED"; rm -rf "$S"; exit 2; }
/venv/bin/python "$D/demo.py" "$S/src" > "$S/demo_mut.log" 2>&1; A=$?
/venv/bin/python "$D/demo.py" /repo/src > "$S/demo_clean.log" 2>&1; B=$?
T=$(cd "$S" && PYTHONPATH="$S/src" /venv/bin/python -m pytest -q -p no:cacheprovider --timeout=900 2>&1 | tail -1)
echo "$(basename "$D"): demo(patched)=$A demo(clean)=$B suite: $T"
rm -rf "$S"
