#!/usr/bin/env python3
"""Markdown table of the seeded-change campaign (seeded/RESULTS.json + the meta.json of each seed)."""
import json
from pathlib import Path
V = Path(__file__).resolve().parent.parent
res = json.load(open(V / "seeded" / "RESULTS.json"))
print("| seeded change | file(s) | needs | obligations still checking | VIOLATION lines (with failing input) |")
print("|---|---|---|---|---|")
for n in sorted(res):
    m = json.load(open(V / "seeded" / n / "meta.json"))
    needs = " ".join(str(m.get("needs", "")).split())
    needs = needs[:230] + ("…" if len(needs) > 230 else "")
    files = ", ".join(Path(f).name for f in m.get("files_touched", []))
    r = res[n]
    print(f"| `{n}` | {files} | {needs} | {r['obligations']} | {r['violation_lines']} ({r['with_failing_input']}) |")
