"""
Shared machinery for the hydrodynamics properties (C02, C03, C05, C06, C15): equation-of-state
families, construction of the real Hydrodynamics objects, exact conservation laws, backward-error
polishing of a returned matching, call-site wrappers (which solver calls happened).
"""
from __future__ import annotations

import math
import warnings

import numpy as np

import common as C

_cache: dict = {}


def gsq(v):
    return 1.0 / (1.0 - v * v)


def eos_families(tier: str, seed_tag="eos", negative_eps=False):
    """[(name, thermo-like object)]  -- bag, template (mu != nu), traced toy potentials."""
    import models
    r = C.rng(seed_tag)
    fams = []
    # bag / template
    base = [dict(ap=3.0, am=2.4, eps=0.2, mu=4.0, nu=4.0, Tn=1.0),
            dict(ap=3.0, am=2.85, eps=0.02, mu=4.0, nu=4.0, Tn=1.0),           # weak
            dict(ap=3.0, am=2.0, eps=0.5, mu=4.2, nu=3.7, Tn=0.9),            # template, strong
            dict(ap=30.0, am=14.0, eps=300.0, mu=3.9, nu=4.3, Tn=4.0)]
    n_extra = 1 if tier == "quick" else 8
    for _ in range(n_extra):
        mu, nu = r.uniform(3.7, 4.6), r.uniform(3.7, 4.6)
        ap = r.uniform(1, 10)
        am = ap * r.uniform(0.6, 0.98)
        Tn = 10 ** r.uniform(-1, 1)
        eps = r.uniform(0.01, 0.6) * ap / 3 * Tn ** mu
        base.append(dict(ap=ap, am=am, eps=eps, mu=mu, nu=nu, Tn=Tn))
    for i, p in enumerate(base):
        e = models.BagEOS(**p)
        # need p_+(Tn) < p_-(Tn) (transition proceeds) and alpha>0
        if e.pHighT(e.Tnucl) >= e.pLowT(e.Tnucl):
            continue
        psi = e.wLowT(e.Tnucl) / e.wHighT(e.Tnucl)
        if not (0.5 <= psi < 1.0 and 1e-3 < e.alpha(e.Tnucl) < 0.8):
            continue          # outside the property's quantifier (enthalpy ratio 0.5..1)
        fams.append((f"template{i}:" + ",".join(f"{k}={v:.4g}" for k, v in p.items()), e))
    # polynomial two-step EOS (temperature-dependent sound speeds in both phases)
    for Tn in ((0.6,) if tier == "quick" else (0.5, 0.6, 0.7, 0.9)):
        fams.append((f"twostep:abrok=0.2,asym=0.1,musq=0.4,Tn={Tn}", models.twostep_eos(Tn=Tn)))
    # template EOS whose broken phase has the LARGER sound speed and a weak transition: the vacuum-energy parameter of the template fit
    # is negative (WallGoManager refuses such points, Hydrodynamics itself does not), yet it is an ordinary direct transition
    # Only on request (C05): WallGoManager rejects these inputs, and near vJ the general matching does not converge for them (observation in DESIGN.md).
    for al, psi, cb2, cs2, Tn in (((0.0646, 0.821, 0.326, 0.227, 1.0),) + (((0.0212, 0.953, 0.294, 0.237, 1.0), (0.03, 0.95, 0.32, 0.25, 100.0)) if tier == "thorough" else ())) if negative_eps else ():
        fams.append((f"template-negative-eps:alN={al},psiN={psi},cb2={cb2},cs2={cs2},Tn={Tn}", models.template_from(al, psi, cb2, cs2, Tn)))
    # the same equations of state with a tabulated range that ends just above Tn: slow detonations heat the plasma behind the
    # wall beyond it (T- > TMaxLowT); the exact matching still exists (extrapolated EOS) and must be the one returned
    fams.append(("twostep:abrok=0.2,asym=0.1,musq=0.4,Tn=0.6,Tmax=0.70", models.twostep_eos(Tn=0.6, Tmax=0.70)))
    fams.append(("template-range-limited:ap=3,am=2.4,eps=0.2,Tn=1,TmaxP=1.15", models.BagEOS(ap=3.0, am=2.4, eps=0.2, Tn=1.0, TmaxP=1.15)))
    # numerically traced potentials (real Thermodynamics class)
    th2c, _m2, _i2 = models.make_thermo("toy2c", {}, TnFrac=0.6, tminFrac=0.5, tmaxFrac=1.12)
    fams.append(("toy2c(two-step, traced):TnFrac=0.6", th2c))
    toys = [(dict(), 0.6), (dict(E=0.07, lam=0.12), 0.5)]
    if tier == "thorough":
        toys += [(dict(D=0.15, E=0.08, lam=0.11, a=5.0), 0.7), (dict(u=25.0), 0.6)]
    for params, f in toys:
        th, _m, info = models.make_thermo("toy1", params, TnFrac=f, tminFrac=0.5, tmaxFrac=1.12)
        fams.append((f"toy1:{sorted(params.items())}:TnFrac={f}", th))
    return fams


def make_hydro(thermo, tmax=10.0, tmin=0.01, rtol=1e-6, atol=1e-10):
    from WallGo.hydrodynamics import Hydrodynamics
    key = (id(thermo), tmax, tmin, rtol, atol)
    if key not in _cache:
        warnings.simplefilter("ignore")
        _cache[key] = Hydrodynamics(thermo, tmax, tmin, rtol, atol)
    return _cache[key]


def fluxes(th, vp, vm, Tp, Tm):
    """(energy flux +, energy flux -, momentum flux +, momentum flux -)"""
    wp, wm = float(th.wHighT(Tp)), float(th.wLowT(Tm))
    return (wp * gsq(vp) * vp, wm * gsq(vm) * vm,
            wp * gsq(vp) * vp * vp + float(th.pHighT(Tp)), wm * gsq(vm) * vm * vm + float(th.pLowT(Tm)))


def branch_of(h, vw, vm, Tm):
    if vw > h.vJ:
        return "detonation"
    cs = math.sqrt(max(float(h.thermodynamics.csqLowT(Tm)), 0.0))      # (a returned T- so low that cs-^2 < 0 is judged by the callers)
    return "deflagration" if vw <= cs else "hybrid"


def polish(th, branch, vw, vp, vm, Tp, Tm):
    """Solve the two conservation laws EXACTLY (to 1e-13) near the returned matching and return the
    backward error max(|dT|/T, |dv|).  Unknowns: detonation (vm, Tm); deflagration (Tp, Tm);
    hybrid (Tp, Tm) with vm = cs_-(Tm)."""
    from scipy.optimize import fsolve

    def res(vp_, vm_, Tp_, Tm_):
        f = fluxes(th, vp_, vm_, Tp_, Tm_)
        return [(f[0] - f[1]) / abs(f[0]), (f[2] - f[3]) / abs(f[2])]
    try:
        if branch == "detonation":
            sol, _info, ier, _msg = fsolve(lambda y: res(vp, y[0], Tp, y[1] * Tm), [vm, 1.0], xtol=1e-14, full_output=True)
            vm2, Tm2 = sol[0], sol[1] * Tm
            err = max(abs(vm2 - vm), abs(Tm2 - Tm) / Tm)
            fin = res(vp, vm2, Tp, Tm2)
        elif branch == "deflagration":
            sol, _info, ier, _msg = fsolve(lambda y: res(vp, vm, y[0] * Tp, y[1] * Tm), [1.0, 1.0], xtol=1e-14, full_output=True)
            err = max(abs(sol[0] - 1), abs(sol[1] - 1))
            fin = res(vp, vm, sol[0] * Tp, sol[1] * Tm)
        else:
            def f(y):
                Tm_ = y[1] * Tm
                return res(vp, math.sqrt(max(float(th.csqLowT(Tm_)), 1e-300)), y[0] * Tp, Tm_)
            sol, _info, ier, _msg = fsolve(f, [1.0, 1.0], xtol=1e-14, full_output=True)
            # the returned v- is part of the state: its distance to cs-(T-) of the exact solution counts as well
            vm_exact = math.sqrt(max(float(th.csqLowT(sol[1] * Tm)), 1e-300))
            err = max(abs(sol[0] - 1), abs(sol[1] - 1), abs(vm - vm_exact))
            fin = f(sol)
        r = res(vp, vm, Tp, Tm)
        return float(err), bool(max(abs(fin[0]), abs(fin[1])) < 1e-9), [float(x) for x in r]
    except Exception as ex:  # noqa: BLE001
        return math.inf, False, [math.nan, math.nan, str(ex)]


class CallLog:
    """Wraps module-level solver names of WallGo.hydrodynamics from outside (no source hooks):
    records which root()/root_scalar()/minimize_scalar() calls happened, whether the 2x2 hybr solve
    converged, and whether the template fallback was taken."""

    def __init__(self, h):
        import WallGo.hydrodynamics as H
        self.H, self.h = H, h
        self.events = []

    def __enter__(self):
        H = self.H
        self._root, self._rs, self._ms = H.root, H.root_scalar, H.minimize_scalar
        self._tfm = self.h.template.findMatching

        def root(*a, **k):
            s = self._root(*a, **k)
            self.events.append(("hybr", bool(s.success), float(np.sum(np.asarray(s.fun) ** 2))))
            return s

        def rs(*a, **k):
            try:
                s = self._rs(*a, **k)
                self.events.append(("root_scalar", bool(s.converged)))
                return s
            except ValueError:
                self.events.append(("root_scalar", "ValueError"))
                raise

        def ms(*a, **k):
            s = self._ms(*a, **k)
            self.events.append(("minimize_scalar", float(s.fun)))
            return s

        def tfm(vw):
            self.events.append(("template_fallback", float(vw)))
            return self._tfm(vw)
        H.root, H.root_scalar, H.minimize_scalar = root, rs, ms
        self.h.template.findMatching = tfm
        return self

    def __exit__(self, *a):
        self.H.root, self.H.root_scalar, self.H.minimize_scalar = self._root, self._rs, self._ms
        self.h.template.findMatching = self._tfm

    def summary(self):
        hy = [e for e in self.events if e[0] == "hybr"]
        return {"hybr_calls": len(hy), "last_hybr_converged": (hy[-1][1] or hy[-1][2] < 1e-6) if hy else None,
                "template_fallback": any(e[0] == "template_fallback" for e in self.events)}


def velocities(h, r, n, lo=None, hi=0.99):
    """wall velocities covering the three branches: the critical ones (around the sound speed behind the wall, where
    deflagrations turn into hybrids, and around the Jouguet velocity) are ALWAYS included; the rest fills up to n."""
    lo = max(h.vMin, 0.02) if lo is None else lo
    cs = math.sqrt(float(h.thermodynamics.csqLowT(h.Tnucl)))
    critical = [cs * 0.98, cs * 0.995, cs * 0.999, cs * 1.02, h.vJ - 4e-3, h.vJ - 2e-3, h.vJ - 5e-4, h.vJ + 2e-3]
    other = [lo * 1.02 + 1e-3, 0.5 * (lo + cs), 0.5 * (cs + h.vJ), 0.5 * (h.vJ + hi), hi]
    critical = [v for v in critical if lo < v <= hi]
    other = [v for v in other if lo < v <= hi]
    while len(critical) + len(other) < n:
        other.append(r.uniform(lo * 1.01 + 1e-3, hi))
    k = max(n - len(critical), 3)
    other = other if k >= len(other) else r.sample(other, k)
    return sorted(set(critical + other))


# ---------------------------------------------------------------- findMatching decision logic (Model.Matching)

def scripted_find_matching(params):
    """Runs the REAL Hydrodynamics.findMatching on an object whose physics and numerical tools are closed-form stubs
    (installed from outside).  Returns the line-protocol string Driver/MatchingF.lean prints for the same parameters."""
    from types import SimpleNamespace
    import WallGo.hydrodynamics as H
    vw, vJ, vJt, vLow, Tn, t0, t1, s0, s1, s2, s3, c0, c1, frS, frD, fm = params
    h = H.Hydrodynamics.__new__(H.Hydrodynamics)
    h.vJ, h.vBracketLow, h.Tnucl, h.atol, h.rtol, h.vMin = vJ, vLow, Tn, 1e-10, 1e-6, vLow
    h.TMaxHydro, h.TMinHydro = 10.0 * Tn, 0.01 * Tn

    def tp(vp):
        return t0 + t1 * vp
    # csqLowT is a DIFFERENT function: using it where csqHighT belongs shows up
    h.thermodynamics = SimpleNamespace(csqHighT=lambda T: c0 + c1 * T, csqLowT=lambda T: 0.9 * c0 - 0.5 * c1 * T)
    h.matchDeflagOrHyb = lambda vw_, vp=None: (vp, "vm", tp(vp), "Tm")
    h.solveHydroShock = lambda vw_, vp, Tp: Tn + s0 + s1 * vp + s2 * (vp * vp) + s3 * (Tp - tp(vp))
    h.matchDeton = lambda vw_: ("deton", None, None, None)
    h.template = SimpleNamespace(vJ=vJt, findMatching=lambda v: ("template", v, None, None))

    def D(vp):
        return h.solveHydroShock(vw, vp, tp(vp)) - Tn

    def S(vp):
        return vp - (c0 + c1 * tp(vp)) / vw
    events = []

    def root_scalar(f, bracket=None, **kw):
        a, b = bracket
        probe = 0.5 * (a + b) + 0.0123
        kind = "rootD" if f(probe) == D(probe) else ("rootS" if f(probe) == S(probe) else "rootUNKNOWN")
        events.append(f"{kind}:{C.f2b(a)}:{C.f2b(b)}")
        return SimpleNamespace(root=a + (frD if kind == "rootD" else frS) * (b - a), converged=True)

    def minimize_scalar(f, bounds=None, **kw):
        a, b = bounds
        x = a + fm * (b - a)
        val = float(f(x))
        d = D(x)
        sigma = 0.0 if d == 0 else val / d
        events.append(f"min:{C.f2b(sigma)}:{C.f2b(a)}:{C.f2b(b)}")
        return SimpleNamespace(x=x, fun=val, success=True)
    saved = (H.root_scalar, H.minimize_scalar)
    H.root_scalar, H.minimize_scalar = root_scalar, minimize_scalar
    try:
        out = H.Hydrodynamics.findMatching(h, vw)
    finally:
        H.root_scalar, H.minimize_scalar = saved
    if out[0] == "deton":
        head = "detonation -"
    elif out[0] == "template":
        head = f"template {C.f2b(out[1])}"
    else:
        head = f"root {C.f2b(out[0])}"
    return head + " | " + " ".join(events)


def matching_params(r):
    vw = r.uniform(0.15, 0.95)
    vJ = vw + r.choice((-0.05, 0.02, 0.1, 0.3)) * r.uniform(0.2, 1.0)
    vJt = vJ + r.uniform(-0.02, 0.02)
    vLow = 10 ** r.uniform(-6, -2)
    Tn = 10 ** r.uniform(-1, 2)
    t0, t1 = Tn * r.uniform(1.0, 1.3), Tn * r.uniform(-0.3, 0.3)
    # D(vp) = s0 + s1 vp + s2 vp^2 : choose roots inside / outside (0, vw) to reach every branch
    kind = r.choice(("root-inside", "no-root", "double-root", "beyond-vpmax0"))
    if kind == "root-inside":
        rt = r.uniform(0.05, 0.9) * vw * 0.5
        s2 = 0.0
        s1 = Tn * r.uniform(0.2, 2) * r.choice((-1, 1))
        s0 = -s1 * rt
    elif kind == "no-root":
        s2 = 0.0
        s1 = Tn * r.uniform(0.2, 2) * r.choice((-1, 1))
        s0 = -s1 * (-r.uniform(0.1, 1))            # root at negative vp
    elif kind == "double-root":
        a, b = sorted((r.uniform(0.02, 0.5) * vw, r.uniform(0.02, 0.5) * vw))
        k = Tn * r.uniform(0.5, 3) * r.choice((-1, 1))
        s2, s1, s0 = k, -k * (a + b), k * a * b
    else:
        rt = vw * r.uniform(0.6, 0.98)
        s2 = 0.0
        s1 = Tn * r.uniform(0.2, 2) * r.choice((-1, 1))
        s0 = -s1 * rt
    s3 = r.uniform(-1, 1)
    # csqHigh(T) = c0 + c1 T around 1/3, rising or falling with T
    c1 = r.uniform(-0.15, 0.25) / Tn
    c0 = r.uniform(0.2, 0.4) - c1 * Tn
    frS, frD, fm = r.uniform(0.05, 0.95), r.uniform(0.05, 0.95), r.uniform(0.05, 0.95)
    return kind, [vw, vJ, vJt, vLow, Tn, t0, t1, s0, s1, s2, s3, c0, c1, frS, frD, fm]


# ---------------------------------------------------------------- findJouguetVelocity bracket search (Model.Jouguet)

def scripted_jouguet(Tn, TMaxLow, TMaxHydro, coef):
    """Runs the REAL Hydrodynamics.findJouguetVelocity on an object with a closed-form stub equation of state and a stub
    root_scalar (installed from outside) that captures the residual function.  Returns (line for Driver/JouguetF, expected output)."""
    from types import SimpleNamespace
    import WallGo.hydrodynamics as H
    a0, a1, a2, b0, b1, kf = coef
    h = H.Hydrodynamics.__new__(H.Hydrodynamics)
    h.Tnucl, h.TMaxLowT, h.TMaxHydro, h.atol, h.rtol = Tn, TMaxLow, TMaxHydro, 1e-10, 1e-6
    # p_low(T) = a0 T^4 - a1 + a2 T^2 sin(T/Tn) ; e = T p' - p ; high phase constants at Tn
    def pL(T):
        return a0 * T ** 4 - a1 + a2 * Tn ** 2 * T ** 2 * math.sin(kf * T / Tn)

    def dpL(T):
        return 4 * a0 * T ** 3 + a2 * Tn ** 2 * (2 * T * math.sin(kf * T / Tn) + T ** 2 * kf / Tn * math.cos(kf * T / Tn))

    def ddpL(T):
        return 12 * a0 * T ** 2 + a2 * Tn ** 2 * (2 * math.sin(kf * T / Tn) + 4 * T * kf / Tn * math.cos(kf * T / Tn)
                                                  - T ** 2 * (kf / Tn) ** 2 * math.sin(kf * T / Tn))
    h.thermodynamics = SimpleNamespace(pHighT=lambda T: b0 * T ** 4, eHighT=lambda T: 3 * b0 * T ** 4 + b1 * Tn ** 4,
                                       pLowT=pL, eLowT=lambda T: T * dpL(T) - pL(T), dpLowT=dpL, deLowT=lambda T: T * ddpL(T))
    cap = {}

    def root_scalar(f, bracket=None, method=None, x0=None, x1=None, **kw):
        cap["f"] = f
        if method == "brentq":
            cap["call"] = ("brentq", bracket[0], bracket[1])
        else:
            cap["call"] = ("secant", x0, x1)
        return SimpleNamespace(root=Tn * 1.5, converged=True, flag="ok")
    saved = H.root_scalar
    H.root_scalar = root_scalar
    try:
        try:
            H.Hydrodynamics.findJouguetVelocity(h)
        except (ValueError, ZeroDivisionError, FloatingPointError):
            pass                   # the final sqrt of the stub state is irrelevant here
    finally:
        H.root_scalar = saved
    f = cap["f"]
    # every temperature the loop can visit, with the same float operations
    temps = [Tn, min(max(2 * Tn, TMaxLow), TMaxHydro)]
    while temps[-1] < TMaxHydro and len(temps) < 5000:
        temps.append(min(temps[-1] + Tn, TMaxHydro))
    tab = " ".join(f"{C.f2b(T)}:{C.f2b(float(f(T)))}" for T in temps)
    line = f"jouguet {C.f2b(Tn)} {C.f2b(TMaxLow)} {C.f2b(TMaxHydro)} {tab}"
    kind, a, b = cap["call"]
    return line, f"{kind} {C.f2b(a)} {C.f2b(b)}"


def jouguet_params(r):
    Tn = 10 ** r.uniform(-1, 2)
    TMaxLow = Tn * r.choice((1.2, 1.7, 2.5, 4.0))
    TMaxHydro = Tn * r.choice((1.5, 3.0, 10.0, 12.5))
    coef = (r.uniform(1, 5), r.uniform(0, 2) * Tn ** 4, r.uniform(-1, 1) * r.choice((0.0, 1.0, 5.0, 30.0)), r.uniform(2, 8), r.uniform(0.1, 2),
            r.choice((0.7, 1.5, 3.0, 5.0)))
    return Tn, TMaxLow, TMaxHydro, coef


# ---------------------------------------------------------------- fastestDeflag / slowestDeton (Model.Window)

def scripted_window(kind, p):
    """Runs the REAL Hydrodynamics.fastestDeflag / slowestDeton on an object whose findMatching and root_scalar are stubs installed
    from outside.  Returns the line Driver/WindowF prints."""
    from types import SimpleNamespace
    import WallGo.hydrodynamics as H
    h = H.Hydrodynamics.__new__(H.Hydrodynamics)
    h.atol, h.rtol = 1e-10, 1e-6

    def stub_root(f, bracket=None, **kw):
        a, b = bracket
        if f(a) * f(b) > 0:
            raise ValueError("f(a) and f(b) must have different signs")      # what brentq does
        lo, hi, flo = a, b, f(a)
        for _ in range(50):                       # same operation sequence as Driver/WindowF.bisect
            mid = lo + 0.5 * (hi - lo)
            fm = f(mid)
            if flo * fm <= 0.0:
                hi = mid
            else:
                lo, flo = mid, fm
        return SimpleNamespace(root=lo + 0.5 * (hi - lo), converged=True)
    saved = H.root_scalar
    H.root_scalar = stub_root
    try:
        if kind == "deflag":
            vJ, vMin, vLow, tml, tmh, p0, p1, p2, m0, m1, m2, fr, el, eh = p
            h.vJ, h.vMin, h.vBracketLow, h.TMaxLowT, h.TMaxHighT = vJ, vMin, vLow, tml, tmh
            h.findMatching = lambda v: (None, None, p0 + p1 * v + p2 * (v * v), m0 + m1 * v + m2 * (v * v))
            h.thermodynamics = SimpleNamespace(freeEnergyLow=SimpleNamespace(maxPossibleTemperature=[tml, bool(el)]),
                                               freeEnergyHigh=SimpleNamespace(maxPossibleTemperature=[tmh, bool(eh)]))
            h.doesPhaseTraceLimitvmax = ["untouched", "untouched"]
            v = H.Hydrodynamics.fastestDeflag(h)

            def so(x):
                return "-" if x == "untouched" else ("1" if x else "0")
            return f"{C.f2b(v)} high={so(h.doesPhaseTraceLimitvmax[0])} low={so(h.doesPhaseTraceLimitvmax[1])}"
        vJ, tml, m0, m1, m2, fr = p
        h.vJ, h.TMaxLowT = vJ, tml
        h.findMatching = lambda v: (None, None, 0.0, m0 + m1 * v + m2 * (v * v))
        return str(C.f2b(H.Hydrodynamics.slowestDeton(h)))
    finally:
        H.root_scalar = saved


def window_params(r):
    if r.random() < 0.6:
        vJ = r.uniform(0.55, 0.85)
        vMin, vLow = r.uniform(0.01, 0.2), 10 ** r.uniform(-6, -2)
        m0, m1, m2 = r.uniform(0.8, 1.0), r.uniform(-0.2, 0.6), r.uniform(-0.3, 0.5)
        p0, p1, p2 = r.uniform(1.0, 1.1), r.uniform(-0.2, 0.6), r.uniform(-0.3, 0.5)
        tm_top = m0 + m1 * vJ + m2 * vJ * vJ
        tp_top = p0 + p1 * vJ + p2 * vJ * vJ
        tml = tm_top * r.choice((0.9, 0.97, 1.05, 1.3))
        tmh = tp_top * r.choice((0.9, 0.97, 1.05, 1.3))
        return "deflag", [vJ, vMin, vLow, tml, tmh, p0, p1, p2, m0, m1, m2, r.uniform(0.05, 0.95), r.randint(0, 1), r.randint(0, 1)]
    vJ = r.uniform(0.55, 0.9)
    m0, m1, m2 = r.uniform(0.8, 1.0), r.uniform(-0.5, 0.8), r.uniform(-0.5, 0.5)
    t1 = m0 + m1 + m2
    return "deton", [vJ, t1 * r.choice((0.8, 0.95, 1.02, 1.2, 1.5)), m0, m1, m2, r.uniform(0.05, 0.95)]


# ---------------------------------------------------------------- findvwLTE decision logic (Model.LTE)

def scripted_lte(Tn, vMin, vJ, p0, p1, t0, t1, fa, s0, s1, s2, q0, q1, eps_sign=1.0):
    """Runs the REAL Hydrodynamics.findvwLTE on an object whose physics (matchDeflagOrHyb, solveHydroShock, csqHighT) are closed-form stubs
    and whose root_scalar is a 50-step bisection that raises ValueError without a sign change (installed from outside).
    Returns (line Driver/LTEF prints, sqrtCs handed to the driver)."""
    from types import SimpleNamespace
    import WallGo.hydrodynamics as H
    h = H.Hydrodynamics.__new__(H.Hydrodynamics)
    h.vJ, h.vMin, h.Tnucl, h.atol, h.rtol, h.vBracketLow = vJ, vMin, Tn, 1e-10, 1e-6, 1e-3
    h.thermodynamics = SimpleNamespace(csqHighT=lambda T: q0 + q1 * T, csqLowT=lambda T: 0.8 * q0 - 0.3 * q1 * T)
    h.template = SimpleNamespace(epsilon=eps_sign * 0.1, vJ=vJ, vMin=vMin, alN=0.1, psiN=0.9, cb2=0.3, cs2=0.3)

    def match(vw, vp=None):
        h.success = not (fa < vw)
        return (p0 + p1 * vw, "vm", t0 + t1 * vw, "Tm")
    h.matchDeflagOrHyb = match
    h.solveHydroShock = lambda vw, vp, Tp: s0 * Tp + s1 * vw + s2 * vp
    brackets = []

    def root_scalar(f, bracket=None, **kw):
        a, b = bracket
        brackets.append((a, b))
        lo, hi = a, b
        flo = f(lo)
        if len(brackets) == 1 and first_is_shock[0] and flo * f(hi) > 0:
            raise ValueError("f(a) and f(b) must have different signs")
        for _ in range(50):
            mid = lo + 0.5 * (hi - lo)
            fm = f(mid)
            if flo * fm <= 0.0:
                hi = mid
            else:
                lo, flo = mid, fm
        return SimpleNamespace(root=lo + 0.5 * (hi - lo), converged=True)
    # the first root_scalar call is the shock one exactly when shock(vJ - 1e-10) > 0
    vp_, Tp_ = p0 + p1 * (vJ - 1e-10), t0 + t1 * (vJ - 1e-10)
    first_is_shock = [vp_ * (vJ - 1e-10) - (q0 + q1 * Tp_) > 0]
    saved = H.root_scalar
    H.root_scalar = root_scalar
    try:
        out = H.Hydrodynamics.findvwLTE(h)
    finally:
        H.root_scalar = saved
    sq = (q0 + q1 * Tn) ** 0.5
    final = brackets[-1] if brackets and not (first_is_shock[0] and len(brackets) == 1) else None
    if final is not None:
        return f"root {C.f2b(float(final[0]))} {C.f2b(float(final[1]))} {C.f2b(float(out))}", sq
    return ("runaway" if out == 1 else "static" if out == 0 else f"value {out}"), sq


def lte_params(r):
    Tn = 10 ** r.uniform(-1, 1)
    vJ = r.uniform(0.6, 0.95)
    vMin = r.choice((1e-3, r.uniform(0.01, 0.4)))
    q0, q1 = r.uniform(0.2, 0.34), r.uniform(-0.05, 0.05) / Tn          # sound speed depends on the temperature in front of the wall
    t0, t1 = Tn * r.uniform(1.0, 1.2), Tn * r.uniform(0.0, 0.8)          # T+(vw) > Tn
    style = r.choice(("shock-ahead", "shock-ahead", "shock-root", "shock-root", "no-shock"))
    if style == "shock-ahead":        # vp*vw < cs^2 even at vJ
        p1 = r.uniform(0.1, 0.3)
        p0 = r.uniform(0.0, 0.05)
    elif style == "shock-root":       # vp*vw crosses cs^2 between cs(Tn) and vJ
        p1 = r.uniform(0.5, 1.0)
        p0 = r.uniform(0.0, 0.1)
    else:                             # vp*vw > cs^2 on the whole bracket
        p0, p1 = r.uniform(0.7, 0.9), r.uniform(0.0, 0.2)
    fa = r.choice((2.0, 2.0, r.uniform(0.3, 1.0)))                        # matchings above `fa` report "not converged"
    kind = r.choice(("interior", "interior", "runaway", "static", "random"))
    # shockTnuclDiff(v) = s0*Tp(v) + s1*v + s2*vp(v) - Tn is linear in v: A*(vroot - v) with A > 0 (driving below the root, stopping above)
    A = r.uniform(0.05, 2.0) * Tn
    s2 = r.uniform(-0.3, 0.3) * Tn
    if kind == "interior":
        vroot = r.uniform(vMin, vJ)
    elif kind == "runaway":
        vroot = vJ + r.uniform(0.0, 0.5)
    elif kind == "static":
        vroot = vMin * r.uniform(0.0, 1.0)
    else:
        vroot = r.uniform(-0.2, 1.2)
        A = A * r.choice((1.0, -1.0))
    s0 = (Tn + A * vroot - s2 * p0) / t0
    s1 = -A - s0 * t1 - s2 * p1
    # the sign of the template-fit vacuum energy is not an input of the LTE condition: vary it
    return f"{style}/{kind}", (Tn, vMin, vJ, p0, p1, t0, t1, fa, s0, s1, s2, q0, q1, r.choice((1.0, 1.0, -1.0)))
