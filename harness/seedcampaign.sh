#!/bin/bash
# usage: harness/seedcampaign.sh [tier] [name-glob] [jobs]  -- every stored seeded change vs its property's check, each on a scratch copy of
# /repo/src with the patch applied, using a PRIVATE copy of the Lean project and a private output directory (so the generated files and the
# evidence of the real tree are not disturbed).  Merges the results into seeded/RESULTS.json.
cd "$(dirname "$0")/.."
export TIER=${1:-quick}; GLOB=${2:-*}; J=${3:-3}
export CAMP=$(mktemp -d /tmp/wgcamp_XXXX)
one() {
  d=$1; n=$(basename "$d"); P=${n%%-*}
  W=$CAMP/$n; mkdir -p $W/out
  PATCH=$(readlink -f $d/patch.diff)
  rsync -a --exclude .git /repo/src "$W"/
  if ! (cd "$W" && patch -p1 -s < "$PATCH"); then echo "$n: PATCH FAILED" > $W/result; return; fi
  rsync -a lean/ $W/lean/
  log=$(WALLGO_REPO="$W" VERIF_LEAN=$W/lean VERIF_OUT=$W/out ./check "$P" --tier "$TIER" 2>&1); rc=$?
  nviol=$(echo "$log" | grep -c "^VIOLATION")
  nfound=$(echo "$log" | grep "^VIOLATION" | grep -vc "no-failing-input-found")
  obl=$(echo "$log" | grep -o "obligations [0-9]*/[0-9]*" | tail -1 | cut -d' ' -f2)
  printf ' "%s": {"property": "%s", "tier": "%s", "exit": %d, "violation_lines": %d, "with_failing_input": %d, "obligations": "%s"}\n' "$n" "$P" "$TIER" $rc $nviol $nfound "$obl" > $W/result
  echo "$n: exit=$rc violations=$nviol with-failing-input=$nfound obligations=$obl"
  rm -rf $W/src $W/lean $W/out
}
export -f one
ls -d seeded/$GLOB/ | xargs -P $J -I{} bash -c "one {}"
(echo "{"; cat $CAMP/*/result | sed '$!s/$/,/'; echo; echo "}") > $CAMP/new.json
/venv/bin/python - $CAMP/new.json <<'PY'
import json, sys, os
new = json.load(open(sys.argv[1]))
old = json.load(open("seeded/RESULTS.json")) if os.path.exists("seeded/RESULTS.json") else {}
old = {k: v for k, v in old.items() if os.path.isdir("seeded/" + k)}      # forget results of seeds that were removed
old.update(new)
json.dump(dict(sorted(old.items())), open("seeded/RESULTS.json", "w"), indent=1)
PY
rm -rf $CAMP
