#!/bin/bash
# usage: harness/seedcampaign.sh [tier] [name-glob]  -- every stored seeded change vs its property's check, on a scratch copy of /repo.
# Writes seeded/RESULTS.json.  Evidence files are overwritten by these runs: re-run the checks on the clean tree afterwards.
cd "$(dirname "$0")/.."
TIER=${1:-quick}; GLOB=${2:-*}
OUT=seeded/RESULTS.json
echo "{" > $OUT.tmp
first=1
for d in seeded/$GLOB/; do
  n=$(basename "$d"); P=${n%%-*}
  [ -f "$d/patch.diff" ] || continue
  D=$(mktemp -d /tmp/wgseed_XXXX)
  rsync -a --exclude .git /repo/src "$D"/
  if ! (cd "$D" && patch -p1 -s < "$(readlink -f $d/patch.diff)"); then echo "$n: PATCH FAILED"; rm -rf "$D"; continue; fi
  log=$(WALLGO_REPO="$D" ./check "$P" --tier "$TIER" 2>&1); rc=$?
  rm -rf "$D"
  nviol=$(echo "$log" | grep -c "^VIOLATION")
  nfound=$(echo "$log" | grep "^VIOLATION" | grep -vc "no-failing-input-found")
  obl=$(echo "$log" | grep -o "obligations [0-9]*/[0-9]*" | tail -1 | cut -d' ' -f2)
  echo "$n: exit=$rc violations=$nviol with-failing-input=$nfound obligations=$obl"
  [ $first = 1 ] || echo "," >> $OUT.tmp; first=0
  printf ' "%s": {"property": "%s", "tier": "%s", "exit": %d, "violation_lines": %d, "with_failing_input": %d, "obligations": "%s"}' "$n" "$P" "$TIER" $rc $nviol $nfound "$obl" >> $OUT.tmp
done
echo "" >> $OUT.tmp; echo "}" >> $OUT.tmp; mv $OUT.tmp $OUT
/venv/bin/python harness/py2lean/gen.py > /dev/null
