#!/venv/bin/python
"""
./check <Cxx> [--tier quick|thorough] [--replay FILE]

Protocol (DESIGN.md 2.4): regenerate Gen/* from $WALLGO_REPO, build the property's Lean
module, audit axioms, validate the translator, run the correspondence / monitors, run the
failing-input search on the real code, write evidence, exit 0/1 (2 = infrastructure).
"""
from __future__ import annotations

import argparse
import importlib
import json
import os
import sys
import traceback
from pathlib import Path

HERE = Path(__file__).resolve().parent
sys.path.insert(0, str(HERE))
sys.path.insert(0, str(HERE / "py2lean"))
import common as C      # noqa: E402


def main() -> int:
    ap = argparse.ArgumentParser()
    ap.add_argument("prop")
    ap.add_argument("--tier", default=os.environ.get("VERIF_TIER") or "quick", choices=["quick", "thorough"])
    ap.add_argument("--replay", default=None)
    a = ap.parse_args()
    prop = a.prop
    P = importlib.import_module(f"props.{prop}")
    rep = C.Report(prop, a.tier)
    rep.trusted = list(getattr(P, "TRUSTED", [])) + [
        "Lean 4.33 kernel; axioms propext, Classical.choice, Quot.sound only (audited with #print axioms on every run)",
        "Mathlib v4.33 as installed",
        "py2lean translator (checked each run by Float translator-validation against the repository's own fragment)",
        "real arithmetic stands for IEEE doubles; scipy/numpy solvers are oracle hypotheses monitored on real runs",
    ]
    rep.assumptions = list(getattr(P, "ASSUMPTIONS", []))
    C.use_repo_on_path()

    if a.replay:
        data = json.loads(Path(a.replay).read_text())
        return P.replay(rep, data)

    # 1. regeneration
    gen = C.regenerate()
    mine = set(getattr(P, "GEN_MODULES", []))
    for f in gen["failures"]:
        if f["module"] in mine or f["module"] in ("*", "Q") and getattr(P, "USES_TABLES", False) or f["module"] == "*":
            rep.obligation(f"translate {f['module']}.{f['lean']}", "translation", False, f["error"])
    rep.extra["regenerated_changed"] = gen.get("changed", [])
    rep.extra["fragment_digests"] = {k: v for k, v in gen.get("digests", {}).items() if k.split(".")[0] in mine}

    # 2. build the property module
    lean_mods = getattr(P, "LEAN_MODULES", None) or [P.LEAN_MODULE]
    lean_mod = " ".join(lean_mods)
    targets = list(lean_mods) + (["WallGoVerif.Gen.F.Dispatch"] if mine else []) + list(getattr(P, "EXTRA_TARGETS", []))
    ok, log, errs = C.lake_build(targets)
    thm_files = [C.LEAN / (m.replace(".", "/") + ".lean") for m in lean_mods]
    thm_file = thm_files[0]
    thms = []
    thm_mod = {}
    for m, f in zip(lean_mods, thm_files):
        for t in C.theorem_names(f):
            thms.append(t)
            thm_mod[t] = m
    if not thms:
        print(f"infrastructure: no theorems found in {thm_files}", file=sys.stderr)
        return 2
    broken_decl = {e["decl"].split(" ", 1)[-1] for e in errs}
    props_built = ok or not any(any(e["file"].endswith(f.name) for f in thm_files) or "Gen/" in e["file"] or "Lemmas/" in e["file"] or "Model/" in e["file"] for e in errs)
    for t in thms:
        short = t.split(".")[-1]
        good = ok or (props_built and short not in broken_decl)
        if not ok and not good:
            det = "; ".join(f"{e['file']}:{e['line']} {e['msg']}" for e in errs if e["decl"].endswith(short))[:400] \
                or "module did not build: " + "; ".join(f"{e['file']}:{e['line']} {e['decl']}: {e['msg']}" for e in errs[:3])
        else:
            det = ""
        rep.obligation(f"theorem {t}", "lean-theorem", good, det)
    if not ok:
        rep.notes.append("lake build failed: " + "; ".join(f"{e['file']}:{e['line']} [{e['decl']}] {e['msg'][:120]}" for e in errs[:8]))

    # 3. audit
    if ok:
        ax = {}
        for m in lean_mods:
            ax.update(C.audit_axioms(m, [t for t in thms if thm_mod[t] == m]))
        if "!error" in ax:
            rep.obligation("axiom audit ran", "audit", False, ax["!error"][-300:])
        for t in thms:
            used = ax.get(t)
            if used is None:
                continue
            extra = set(used) - C.STD_AXIOMS
            rep.obligation(f"axioms {t} ⊆ std", "audit", not extra, ",".join(sorted(extra)))
        files = thm_files + [C.LEAN / (m.replace(".", "/") + ".lean") for m in getattr(P, "LEMMA_MODULES", [])]
        hits = C.forbidden_tokens([f for f in files if f.exists()])
        rep.obligation("no sorry/admit/native_decide/axiom in sources", "audit", not hits, "; ".join(hits[:5]))

        if a.tier == "thorough":
            # independent re-check of the compiled property modules by the toolchain's kernel re-checker
            for m in lean_mods:
                try:
                    r = C.run(["lake", "env", "leanchecker", m], cwd=C.LEAN, timeout=3000)
                    rep.obligation(f"leanchecker {m}", "kernel-recheck", r.returncode == 0, r.stdout[-300:])
                except Exception as ex:  # noqa: BLE001
                    rep.obligation(f"leanchecker {m}", "kernel-recheck", False, f"{type(ex).__name__}: {ex}")

    # 4. translator validation
    disagreements = []
    if mine and (C.LEAN / ".lake" / "build" / "lib" / "lean" / "WallGoVerif" / "Gen" / "F" / "Dispatch.olean").exists():
        import validate as V
        n = getattr(P, "VALIDATION_POINTS", (200, 5000))[0 if a.tier == "quick" else 1]
        try:
            disagreements = V.validate(sorted(mine, key=list(__import__("specs").MODULES).index), n, rep,
                                       only=getattr(P, "VALIDATE_ONLY", None))
        except Exception as ex:  # noqa: BLE001
            rep.obligation("translator validation ran", "translator-validation", False, f"{type(ex).__name__}: {ex}")
            traceback.print_exc()
    rep.extra["validation_disagreements"] = disagreements[:5]

    # 5. correspondence + oracle monitors on the real code
    try:
        if hasattr(P, "corr"):
            P.corr(rep, a.tier)
    except Exception as ex:  # noqa: BLE001
        rep.obligation("correspondence ran", "correspondence", False, f"{type(ex).__name__}: {ex}")
        traceback.print_exc()

    # 6. property search on the real code (always; deeper when something broke)
    broken = rep.broken()
    try:
        if hasattr(P, "search"):
            P.search(rep, a.tier, broken)
    except Exception as ex:  # noqa: BLE001
        rep.obligation("search ran", "search", False, f"{type(ex).__name__}: {ex}")
        traceback.print_exc()

    # 7. an obligation broke but no concrete input was found
    broken = rep.broken()
    if broken and not rep.violations and not (rep.known_hit and getattr(P, "KNOWN_EXPLAINS", lambda b, k: False)(broken, rep.known_hit)):
        rep.violation("obligations no longer check: " + "; ".join(o["name"] for o in broken[:6]),
                      {"broken_obligations": broken[:20], "note": "no failing input found on the real code; "
                       "the property is no longer shown to hold"}, found_input=False)

    cmd = f"cd lean && lake build {lean_mod} && lake env lean <#print axioms of every theorem> ; ./check {prop} --tier {a.tier}"
    rc = rep.finish(cmd, getattr(P, "RULE", ""))
    n_ok = sum(1 for o in rep.obligations if o["ok"])
    print(f"[{prop}] tier={a.tier} seed={C.SEED} obligations {n_ok}/{len(rep.obligations)} "
          f"evaluations={rep.evaluations} violations={len(rep.violations)} known={len(rep.known_hit)} "
          f"wall={rep.extra.get('wall', '')}")
    return rc


if __name__ == "__main__":
    try:
        sys.exit(main())
    except SystemExit:
        raise
    except Exception:   # noqa: BLE001
        traceback.print_exc()
        sys.exit(2)
