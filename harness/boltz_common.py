"""Build real BoltzmannSolver instances on harness-written collision data and analytic backgrounds."""
from __future__ import annotations

import shutil

import numpy as np

import coll_common as CC


def make_solver(M=8, N=5, basisM="Cardinal", basisN="Chebyshev", derivatives="Spectral", nparticles=1, stats=("Fermion",),
                y2=(0.3,), dofs=(12,), coll_scale=1.0, seed=0, grid3=True, Tscale=1.0):
    """Returns (solver, grid, particles, cleanup).  Collision operator: -coll_scale*(identity) + 5% random, stored in Cardinal basis."""
    from WallGo.grid3Scales import Grid3Scales
    from WallGo.grid import Grid
    from WallGo.boltzmann import BoltzmannSolver
    if grid3:
        grid = Grid3Scales(M, N, 5.0 / Tscale, 5.0 / Tscale, 1.0 / Tscale, Tscale, 0.5, 0.1, 0.0)
    else:
        grid = Grid(M, N, 1.0 / Tscale, Tscale)
    names = ["A", "B", "C"][:nparticles]
    parts = []
    for i, n in enumerate(names):
        yy = y2[i % len(y2)]
        parts.append(CC.mkpart(n, stats[i % len(stats)], dofs[i % len(dofs)],
                               msq=(lambda f, yy=yy: yy * f.getField(0) ** 2),
                               dmsq=(lambda f, yy=yy: np.transpose([2 * yy * f.getField(0)]))))
    rng = np.random.default_rng(seed)
    n = N - 1
    blocks = {}
    for a in names:
        for b in names:
            blk = 0.05 * rng.normal(size=(n, n, n, n))
            if a == b:
                blk = blk + coll_scale * np.einsum("pj,qk->pqjk", np.eye(n), np.eye(n))
            blocks[(a, b)] = blk
    base = CC.scratch()
    d = CC.write_dir(base / "coll", names, N, "Cardinal", blocks)
    solver = BoltzmannSolver(grid, basisM, basisN, derivatives)
    solver.updateParticleList(parts)
    solver.loadCollisions(d)
    return solver, grid, parts, (lambda: shutil.rmtree(base, ignore_errors=True))


def background(grid, vmid=-0.5, dv=0.0, T0=1.0, dT=0.0, phi0=0.0, dphi=0.0, width=1.0):
    """Smooth tanh background on the grid's position points (end points appended as in the EOM)."""
    from WallGo.containers import BoltzmannBackground
    from WallGo.fields import Fields
    xi = grid.xiValues
    s = np.tanh(xi / width)
    ext = np.concatenate(([-1.0], s, [1.0]))
    v = vmid + dv * ext
    T = T0 + dT * ext
    phi = phi0 + dphi * 0.5 * (1 - ext)
    return BoltzmannBackground(vmid, v, Fields(phi[:, None]), T)
