#!/bin/bash
# usage: harness/seedtest.sh <Cxx> <patch.diff> [tier]   -- runs ./check Cxx against a scratch copy of /repo with the patch applied
set -e
P=$1; PATCH=$(readlink -f "$2"); TIER=${3:-quick}
D=$(mktemp -d /tmp/wgseed_XXXX)
rsync -a --exclude .git /repo/src "$D"/
(cd "$D" && patch -p1 -s < "$PATCH")
cd "$(dirname "$0")/.."
set +e
WALLGO_REPO="$D" ./check "$P" --tier "$TIER" 2>&1 | cut -c1-220 | grep -v "^$" | tail -6
rm -rf "$D"
# restore the generated files for the real tree
/venv/bin/python harness/py2lean/gen.py > /dev/null
