"""Helpers to write collision-file directories and build particles (used by C14, C12, C13, C01)."""
from __future__ import annotations

import pathlib
import shutil
import tempfile

import numpy as np


def mkpart(name, stat="Fermion", dofs=1, msq=None, dmsq=None, nfields=1):
    from WallGo.particle import Particle
    msq = msq or (lambda f: 0.0 * f.getField(0))
    dmsq = dmsq or (lambda f: np.zeros_like(f))
    return Particle(name, index=0, msqVacuum=msq, msqDerivative=dmsq, statistics=stat, totalDOFs=dofs)


def write_dir(path, names, sizes, btypes, blocks, skip=()):
    """sizes/btypes: value or dict per (a,b); blocks: dict (a,b) -> array (n-1,)*4."""
    import h5py
    d = pathlib.Path(path)
    shutil.rmtree(d, ignore_errors=True)
    d.mkdir(parents=True)
    for a in names:
        for b in names:
            if (a, b) in skip:
                continue
            n = sizes[(a, b)] if isinstance(sizes, dict) else sizes
            bt = btypes[(a, b)] if isinstance(btypes, dict) else btypes
            with h5py.File(d / f"collisions_{a}_{b}.hdf5", "w") as f:
                md = f.create_dataset("metadata", data=np.zeros(1))
                md.attrs["Basis Size"] = n
                md.attrs["Basis Type"] = np.bytes_(bt.encode())
                f.create_dataset(f"{a}, {b}", data=blocks[(a, b)])
    return d


def scratch():
    return pathlib.Path(tempfile.mkdtemp(prefix="wgverif_"))
